// Runs the real tonic-build (manual API, no protoc) from /repo to generate the
// client/server code the monitors drive.  Regenerated whenever tonic-build changes,
// because the dependency is a path dependency into /repo.
use std::path::PathBuf;
use tonic_build::manual::{Builder, Method, Service};

const MSG: &str = "crate::pb::Msg";
const CODEC: &str = "tonic::codec::ProstCodec";

fn m(name: &str, route: &str, cs: bool, ss: bool) -> Method {
    let mut b = Method::builder()
        .name(name)
        .route_name(route)
        .input_type(MSG)
        .output_type(MSG)
        .codec_path(CODEC);
    if cs {
        b = b.client_streaming();
    }
    if ss {
        b = b.server_streaming();
    }
    b.build()
}

fn main() {
    println!("cargo:rerun-if-changed=build.rs");
    let out = PathBuf::from(std::env::var("OUT_DIR").unwrap());

    // The main 4-shape service.
    let verif = Service::builder()
        .name("Verif")
        .package("verif.v1")
        .method(m("unary", "Unary", false, false))
        .method(m("client_stream", "ClientStream", true, false))
        .method(m("server_stream", "ServerStream", false, true))
        .method(m("bidi", "Bidi", true, true))
        .build();
    let d = out.join("main");
    std::fs::create_dir_all(&d).unwrap();
    Builder::new().out_dir(&d).compile(&[verif]);

    // Routing services with colliding names (C10).  Each in its own directory/module.
    // (dir, package, service, methods)
    let routing: &[(&str, &str, &str, &[&str])] = &[
        ("r0", "a", "S", &["M", "Mx", "m"]),
        ("r1", "a", "Sx", &["M"]),
        ("r2", "a", "s", &["M"]),
        ("r3", "", "S", &["M", "MM"]),
        ("r4", "a.b", "S", &["M"]),
        ("r5", "aa", "S", &["M"]),
        ("r6", "a", "SS", &["M"]),
        ("r7", "", "a", &["S"]),
        ("r8", "a.S", "M", &["M"]),
        ("r9", "b", "S", &["M", "N"]),
        ("r10", "", "aS", &["M"]),
        ("r11", "A", "S", &["M"]),
    ];
    for (dir, pkg, svc, methods) in routing {
        let mut sb = Service::builder().name(svc);
        if !pkg.is_empty() {
            sb = sb.package(pkg);
        } else {
            sb = sb.package("");
        }
        for (i, meth) in methods.iter().enumerate() {
            sb = sb.method(m(&format!("h{}", i), meth, false, false));
        }
        let d = out.join(dir);
        std::fs::create_dir_all(&d).unwrap();
        Builder::new().out_dir(&d).compile(&[sb.build()]);
        // normalise the file name so lib.rs can include it without knowing package.name
        let mut found = None;
        for e in std::fs::read_dir(&d).unwrap() {
            let p = e.unwrap().path();
            if p.extension().map(|x| x == "rs").unwrap_or(false)
                && p.file_name().unwrap() != "svc.rs"
            {
                found = Some(p);
            }
        }
        let f = found.expect("generated file");
        std::fs::rename(&f, d.join("svc.rs")).unwrap();
    }
}
