//! Drivers for tonic's public codec boundary: EncodeBody (encoder side) and Streaming (decoder
//! side), polled by the counting executor with scripted sources/bodies.
use crate::exec::{Exec, Out};
use crate::refc::Enc;
use crate::script::{BStep, BodyStats, ScriptBody, ScriptSource, SStep, SourceStats};
use http::HeaderMap;
use http_body::Body;
use std::future::Future;
use std::pin::Pin;
use std::sync::Arc;
use std::task::{Context, Poll};
use bytes::Bytes;
use http_body::Frame;
use tokio_stream::Stream;
use tonic::codec::{Decoder, EncodeBody, Encoder, Streaming};
use tonic::Status;

#[derive(Clone, Copy, Debug, PartialEq, Eq)]
pub enum Role {
    Client,
    Server,
}

#[derive(Debug)]
pub enum EFrame {
    Data(Vec<u8>),
    Trailers(HeaderMap),
    Err(Status),
}

#[derive(Debug)]
pub struct EncOut {
    pub frames: Vec<EFrame>,
    /// results of polls made after the body first returned None
    pub after_end_non_none: usize,
    pub polls: usize,
    pub stalled: bool,
    pub budget: bool,
    pub src: Arc<SourceStats>,
    pub end_stream_flag_at_end: bool,
    pub end_stream_flag_early: bool,
}

impl EncOut {
    pub fn wire(&self) -> Vec<u8> {
        let mut v = Vec::new();
        for f in &self.frames {
            if let EFrame::Data(d) = f {
                v.extend_from_slice(d);
            }
        }
        v
    }
    pub fn data_frames(&self) -> Vec<&Vec<u8>> {
        self.frames
            .iter()
            .filter_map(|f| if let EFrame::Data(d) = f { Some(d) } else { None })
            .collect()
    }
}

/// Encode `steps` through the real EncodeBody and collect every frame until None, then poll
/// `extra` more times.
pub fn encode_run<E>(
    encoder: E,
    steps: Vec<SStep<E::Item>>,
    enc: Enc,
    role: Role,
    limit: Option<usize>,
    extra: usize,
) -> EncOut
where
    E: Encoder<Error = Status>,
    E::Item: Unpin,
{
    let nsteps = steps.len();
    let (src, sstats) = ScriptSource::new(steps);
    let mut ex = Exec::new();
    let mut out = EncOut {
        frames: Vec::new(),
        after_end_non_none: 0,
        polls: 0,
        stalled: false,
        budget: false,
        src: sstats,
        end_stream_flag_at_end: false,
        end_stream_flag_early: false,
    };
    macro_rules! drive {
        ($body:expr) => {{
            let mut body = Box::pin($body);
            let budget = nsteps * 4 + 64;
            let mut ended = false;
            let mut extra_left = extra;
            // polls that produced no bytes; a DATA frame with bytes is progress and does not count
            // (how finely the encoder slices its output is its own business)
            let mut total = 0usize;
            let mut bytes_out = 0usize;
            loop {
                if !ended && body.is_end_stream() {
                    // is_end_stream()==true promises that no further frame will come
                    out.end_stream_flag_early = true;
                }
                let r = ex.drive(budget, |cx| body.as_mut().poll_frame(cx));
                total += 1;
                match r {
                    Out::Done(Some(Ok(f))) => {
                        if let Some(d) = f.data_ref() {
                            if !d.is_empty() && !ended {
                                total -= 1;
                                bytes_out += d.len();
                            }
                        }
                        if ended {
                            out.after_end_non_none += 1;
                        }
                        if out.end_stream_flag_early && !ended {
                            // a frame after is_end_stream() said true
                            out.after_end_non_none += 1000;
                        }
                        out.end_stream_flag_early = false;
                        if f.is_data() {
                            out.frames.push(EFrame::Data(f.into_data().unwrap().to_vec()));
                        } else {
                            out.frames.push(EFrame::Trailers(f.into_trailers().unwrap()));
                        }
                    }
                    Out::Done(Some(Err(s))) => {
                        if ended {
                            out.after_end_non_none += 1;
                        }
                        out.frames.push(EFrame::Err(s));
                    }
                    Out::Done(None) => {
                        if !ended {
                            ended = true;
                            out.end_stream_flag_at_end = body.is_end_stream();
                        }
                        if extra_left == 0 {
                            break;
                        }
                        extra_left -= 1;
                    }
                    Out::Stalled => {
                        out.stalled = true;
                        break;
                    }
                    Out::Budget => {
                        out.budget = true;
                        break;
                    }
                }
                if total > nsteps * 4 + 64 + extra || bytes_out > (1usize << 30) {
                    out.budget = true;
                    break;
                }
            }
        }};
    }
    match role {
        Role::Client => drive!(EncodeBody::new_client(encoder, src, enc.tonic(), limit)),
        Role::Server => drive!(EncodeBody::new_server(
            encoder,
            src,
            enc.tonic(),
            Default::default(),
            limit
        )),
    }
    out.polls = ex.polls;
    out
}

#[derive(Clone, Copy, Debug, PartialEq, Eq)]
pub enum Dir {
    Request,
    Response(u16),
}

#[derive(Debug)]
pub enum DItem<T> {
    Msg(T),
    Err(Status),
    End,
}

#[derive(Debug)]
pub struct DecOut<T> {
    /// every poll result in order, including the ones after the first End/Err
    pub seq: Vec<DItem<T>>,
    pub stalled: bool,
    pub budget: bool,
    pub body: Arc<BodyStats>,
    pub polls: usize,
    pub trailers: Option<Result<Option<tonic::metadata::MetadataMap>, Status>>,
    /// number of DATA steps the body had delivered when each item of `seq` was produced
    pub data_steps_at: Vec<usize>,
}

impl<T> DecOut<T> {
    /// messages before the first End/Err
    pub fn msgs(&self) -> Vec<&T> {
        let mut v = Vec::new();
        for i in &self.seq {
            match i {
                DItem::Msg(m) => v.push(m),
                _ => break,
            }
        }
        v
    }
    /// index of first non-message item
    pub fn first_terminal(&self) -> Option<usize> {
        self.seq.iter().position(|i| !matches!(i, DItem::Msg(_)))
    }
}

/// Decode `steps` through the real Streaming; after the first terminal item (End or Err) keep
/// polling `extra` more times and record what comes out.
pub fn decode_run<D>(
    decoder: D,
    steps: Vec<BStep>,
    dir: Dir,
    enc: Enc,
    limit: Option<usize>,
    extra: usize,
    eager_end: bool,
    want_trailers: bool,
) -> DecOut<D::Item>
where
    D: Decoder<Error = Status> + Send + 'static,
    D::Item: 'static,
{
    decode_run_opts(decoder, steps, dir, enc, limit, extra, eager_end, want_trailers, false)
}

#[allow(clippy::too_many_arguments)]
pub fn decode_run_opts<D>(
    decoder: D,
    steps: Vec<BStep>,
    dir: Dir,
    enc: Enc,
    limit: Option<usize>,
    extra: usize,
    eager_end: bool,
    want_trailers: bool,
    unfused: bool,
) -> DecOut<D::Item>
where
    D: Decoder<Error = Status> + Send + 'static,
    D::Item: 'static,
{
    let nsteps = steps.len();
    let total_bytes: usize = steps
        .iter()
        .map(|s| if let BStep::Data(d) = s { d.len() } else { 0 })
        .sum();
    let (mut body, bstats) = ScriptBody::new(steps);
    body.eager_end = eager_end;
    body.continue_after_err = unfused;
    // a transport may hand its data over as a non-contiguous buffer: same bytes, several segments
    let body = SegBody { inner: body, on: SEGMENTED.with(|c| c.get()) };
    let mut st: Streaming<D::Item> = match dir {
        Dir::Request => Streaming::new_request(decoder, body, enc.tonic(), limit),
        Dir::Response(code) => Streaming::new_response(
            decoder,
            body,
            http::StatusCode::from_u16(code).unwrap(),
            enc.tonic(),
            limit,
        ),
    };
    let mut ex = Exec::new();
    let mut out = DecOut {
        seq: Vec::new(),
        stalled: false,
        budget: false,
        body: bstats,
        polls: 0,
        trailers: None,
        data_steps_at: Vec::new(),
    };
    // every 5 bytes could at most be one (empty) message
    let item_budget = total_bytes / 5 + nsteps + 8;
    let poll_budget = nsteps * 2 + 80;
    let mut extra_left = extra;
    let mut terminal_seen = false;
    loop {
        let r = ex.drive(poll_budget, |cx| Pin::new(&mut st).poll_next(cx));
        match r {
            Out::Done(Some(Ok(m))) => out.seq.push(DItem::Msg(m)),
            Out::Done(Some(Err(e))) => {
                out.seq.push(DItem::Err(e));
                terminal_seen = true;
            }
            Out::Done(None) => {
                out.seq.push(DItem::End);
                terminal_seen = true;
            }
            Out::Stalled => {
                out.stalled = true;
                break;
            }
            Out::Budget => {
                out.budget = true;
                break;
            }
        }
        out.data_steps_at
            .push(out.body.data_steps_delivered.load(std::sync::atomic::Ordering::SeqCst));
        if terminal_seen {
            if extra_left == 0 {
                break;
            }
            extra_left -= 1;
        }
        if out.seq.len() > item_budget + extra {
            out.budget = true;
            break;
        }
    }
    if want_trailers && !out.stalled && !out.budget {
        let mut fut = Box::pin(st.trailers());
        match ex.drive(poll_budget, |cx| fut.as_mut().poll(cx)) {
            Out::Done(t) => out.trailers = Some(t),
            Out::Stalled => out.stalled = true,
            Out::Budget => out.budget = true,
        }
    }
    out.polls = ex.polls;
    let _ = Poll::<()>::Pending;
    out
}

pub fn status_brief(s: &Status) -> String {
    format!("{:?}:{}", s.code(), s.message())
}

/// Drain any http body with the counting executor: (data bytes, data frame sizes, trailers).
pub fn drain_body<B>(body: B, ex: &mut Exec) -> Result<(Vec<u8>, Vec<usize>, Option<HeaderMap>), String>
where
    B: Body,
    B::Data: bytes::Buf,
    B::Error: std::fmt::Debug,
{
    use bytes::Buf;
    let mut body = Box::pin(body);
    let mut data = Vec::new();
    let mut sizes = Vec::new();
    let mut trailers: Option<HeaderMap> = None;
    for _ in 0..100_000 {
        match ex.drive(100_000, |cx| body.as_mut().poll_frame(cx)) {
            Out::Done(Some(Ok(f))) => {
                if trailers.is_some() {
                    return Err("frame after trailers".into());
                }
                if f.is_data() {
                    let mut d = f.into_data().ok().unwrap();
                    sizes.push(d.remaining());
                    while d.has_remaining() {
                        let c = d.chunk().to_vec();
                        d.advance(c.len());
                        data.extend_from_slice(&c);
                    }
                } else if let Ok(t) = f.into_trailers() {
                    trailers = Some(t);
                }
            }
            Out::Done(Some(Err(e))) => return Err(format!("body error: {:?}", e)),
            Out::Done(None) => return Ok((data, sizes, trailers)),
            Out::Stalled => return Err("body stalled (Pending without wake-up)".into()),
            Out::Budget => return Err("body poll budget exhausted".into()),
        }
    }
    Err("body never ended".into())
}


// ------------------------------------------------------------------ non-contiguous body data

thread_local! {
    /// When set, `decode_run*` delivers every DATA frame as a buffer of up to three segments.
    pub static SEGMENTED: std::cell::Cell<bool> = const { std::cell::Cell::new(false) };
}

/// Run `f` with segmented body data switched on or off.
pub fn with_segmented<R>(on: bool, f: impl FnOnce() -> R) -> R {
    let prev = SEGMENTED.with(|c| c.replace(on));
    let r = f();
    SEGMENTED.with(|c| c.set(prev));
    r
}

/// A `Buf` made of several `Bytes` segments (what a rope or a chained buffer looks like).
pub struct SegBuf {
    segs: std::collections::VecDeque<Bytes>,
}
impl bytes::Buf for SegBuf {
    fn remaining(&self) -> usize {
        self.segs.iter().map(|s| s.len()).sum()
    }
    fn chunk(&self) -> &[u8] {
        self.segs.iter().find(|s| !s.is_empty()).map(|s| &s[..]).unwrap_or(&[])
    }
    fn advance(&mut self, mut cnt: usize) {
        while cnt > 0 {
            let Some(front) = self.segs.front_mut() else { panic!("verif-harness-bug: advance past the end of a SegBuf") };
            if front.len() <= cnt {
                cnt -= front.len();
                self.segs.pop_front();
            } else {
                bytes::Buf::advance(front, cnt);
                cnt = 0;
            }
        }
        while matches!(self.segs.front(), Some(s) if s.is_empty()) {
            self.segs.pop_front();
        }
    }
}

pub struct SegBody<B> {
    inner: B,
    on: bool,
}
impl<B> SegBody<B> {
    pub fn new(inner: B, on: bool) -> Self {
        SegBody { inner, on }
    }
}
impl<B> http_body::Body for SegBody<B>
where
    B: http_body::Body<Data = Bytes> + Unpin,
{
    type Data = SegBuf;
    type Error = B::Error;
    fn poll_frame(mut self: Pin<&mut Self>, cx: &mut Context<'_>) -> Poll<Option<Result<Frame<SegBuf>, B::Error>>> {
        let on = self.on;
        match Pin::new(&mut self.inner).poll_frame(cx) {
            Poll::Pending => Poll::Pending,
            Poll::Ready(None) => Poll::Ready(None),
            Poll::Ready(Some(Err(e))) => Poll::Ready(Some(Err(e))),
            Poll::Ready(Some(Ok(f))) => Poll::Ready(Some(Ok(f.map_data(|d| {
                let mut segs = std::collections::VecDeque::new();
                if on && d.len() >= 2 {
                    let a = d.len() / 3;
                    let b = (2 * d.len()) / 3;
                    segs.push_back(d.slice(..a));
                    segs.push_back(d.slice(a..b));
                    segs.push_back(d.slice(b..));
                } else {
                    segs.push_back(d);
                }
                SegBuf { segs }
            })))),
        }
    }
    fn is_end_stream(&self) -> bool {
        self.inner.is_end_stream()
    }
    fn size_hint(&self) -> http_body::SizeHint {
        self.inner.size_hint()
    }
}
