//! Generators and extractors for metadata maps and statuses (shared by several monitors).
use crate::prng::Rng;
use crate::refc::MultiMap;
use tonic::metadata::{AsciiMetadataKey, AsciiMetadataValue, BinaryMetadataKey, BinaryMetadataValue, KeyAndValueRef, MetadataMap};

pub const RESERVED: &[&str] = &["te", "user-agent", "content-type", "grpc-status", "grpc-message", "grpc-message-type"];

#[derive(Clone, Debug, PartialEq)]
pub enum MVal {
    Ascii(String),
    Bin(Vec<u8>),
}

pub type MetaSpec = Vec<(String, MVal)>;

const KEY_CHARS: &[u8] = b"abcdefghijklmnopqrstuvwxyz0123456789-_.";
const KEY_CHARS_RARE: &[u8] = b"!#$%&'*+^`|~";

/// Ordinary (non-reserved) names that merely begin like a reserved one.
pub const NEAR_RESERVED: &[&str] = &["te-x", "team", "tenant-id", "test-trace", "user-agent-family", "content-type-options", "content-typ",
    "grpc-status-origin", "grpc-message-id", "grpc-statu", "t", "tex"];

pub fn gen_key(rng: &mut Rng, bin: bool) -> String {
    if rng.chance(1, 12) {
        let k = rng.pick(NEAR_RESERVED).to_string();
        return if bin { format!("{}-bin", k) } else { k };
    }
    loop {
        let n = rng.urange(1, 12);
        let mut k = String::new();
        for _ in 0..n {
            let c = if rng.chance(1, 15) { *rng.pick(KEY_CHARS_RARE) } else { *rng.pick(KEY_CHARS) };
            k.push(c as char);
        }
        if rng.chance(1, 4) {
            k = format!("x-{}", k);
        }
        if bin {
            k.push_str("-bin");
        } else if k.ends_with("-bin") {
            continue;
        }
        // "verif-" is the harness's own namespace (markers inserted by monitors)
        if RESERVED.contains(&k.as_str()) || k.starts_with("grpc-") || k.starts_with(':') || k.starts_with("verif-") || k.starts_with("x-verif") || k == "x-script" {
            continue;
        }
        // hop-by-hop / connection-specific names are not legal in HTTP/2 and would be a test of
        // hyper, not tonic
        if ["connection", "keep-alive", "proxy-connection", "transfer-encoding", "upgrade", "host", "content-length", "date", "trailer"].contains(&k.as_str()) {
            continue;
        }
        return k;
    }
}

pub fn gen_ascii_value(rng: &mut Rng, edge_spaces: bool) -> String {
    let n = match rng.below(6) {
        0 => 0,
        1 => 1,
        _ => rng.urange(1, 24),
    };
    let mut s = String::new();
    for i in 0..n {
        let c = match rng.below(10) {
            0 => *rng.pick(&[b' ', b':', b',', b';', b'=', b'%', b'"', b'\\', b'~', b'!']),
            _ => 0x21 + rng.below(0x5e) as u8,
        };
        let c = if !edge_spaces && (i == 0 || i == n - 1) && c == b' ' { b'_' } else { c };
        s.push(c as char);
    }
    s
}

pub fn gen_bin_value(rng: &mut Rng) -> Vec<u8> {
    let n = if rng.chance(1, 8) { rng.urange(33, 200) } else { rng.urange(0, 32) };
    match rng.below(4) {
        0 => vec![0xff; n],
        1 => vec![0x00; n],
        _ => rng.bytes(n),
    }
}

/// A metadata spec with repeated keys, both kinds of values.  No reserved names.
pub fn gen_meta(rng: &mut Rng, max: usize, edge_spaces: bool) -> MetaSpec {
    let n = match rng.below(5) {
        0 => 0,
        1 => 1,
        _ => rng.urange(1, max),
    };
    let mut spec: MetaSpec = Vec::new();
    for _ in 0..n {
        let bin = rng.chance(2, 5);
        // repeat an earlier key of the same kind sometimes
        let same: Vec<String> = spec
            .iter()
            .filter(|(_, v)| matches!(v, MVal::Bin(_)) == bin)
            .map(|(k, _)| k.clone())
            .collect();
        let key = if !same.is_empty() && rng.chance(1, 3) { rng.pick(&same).clone() } else { gen_key(rng, bin) };
        let val = if bin { MVal::Bin(gen_bin_value(rng)) } else { MVal::Ascii(gen_ascii_value(rng, edge_spaces)) };
        spec.push((key, val));
    }
    spec
}

pub fn build_meta(spec: &MetaSpec) -> MetadataMap {
    let mut m = MetadataMap::new();
    apply_meta(&mut m, spec);
    m
}

pub fn apply_meta(m: &mut MetadataMap, spec: &MetaSpec) {
    for (k, v) in spec {
        match v {
            MVal::Ascii(s) => {
                let key = AsciiMetadataKey::from_bytes(k.as_bytes()).expect("verif-harness-bug: ascii key");
                let val = AsciiMetadataValue::try_from(s.as_str()).expect("verif-harness-bug: ascii value");
                m.append(key, val);
            }
            MVal::Bin(b) => {
                let key = BinaryMetadataKey::from_bytes(k.as_bytes()).expect("verif-harness-bug: bin key");
                m.append_bin(key, BinaryMetadataValue::from_bytes(b));
            }
        }
    }
}

/// Expected multimap of a spec: key -> ordered decoded values.
pub fn spec_multimap(spec: &MetaSpec) -> MultiMap {
    let mut mm = MultiMap::new();
    for (k, v) in spec {
        let bytes = match v {
            MVal::Ascii(s) => s.as_bytes().to_vec(),
            MVal::Bin(b) => b.clone(),
        };
        mm.entry(k.clone()).or_default().push(bytes);
    }
    mm
}

/// What a receiving MetadataMap presents through its typed iterator: key -> ordered decoded
/// values.  Err when a binary value does not decode or an entry is presented under the wrong type.
pub fn meta_multimap(m: &MetadataMap) -> Result<MultiMap, String> {
    let mut mm = MultiMap::new();
    for kv in m.iter() {
        match kv {
            KeyAndValueRef::Ascii(k, v) => {
                if k.as_str().ends_with("-bin") {
                    return Err(format!("binary key {} presented as ASCII", k.as_str()));
                }
                mm.entry(k.as_str().to_string()).or_default().push(v.as_bytes().to_vec());
            }
            KeyAndValueRef::Binary(k, v) => {
                if !k.as_str().ends_with("-bin") {
                    return Err(format!("ASCII key {} presented as binary", k.as_str()));
                }
                let b = v.to_bytes().map_err(|e| format!("binary value of {} does not decode: {}", k.as_str(), e))?;
                mm.entry(k.as_str().to_string()).or_default().push(b.to_vec());
            }
        }
    }
    Ok(mm)
}

/// `have` contains every entry of `want` (same key, same ordered value list).
pub fn multimap_includes(have: &MultiMap, want: &MultiMap) -> Result<(), String> {
    for (k, vs) in want {
        match have.get(k) {
            None => return Err(format!("key {:?} missing", k)),
            Some(h) if h != vs => return Err(format!("key {:?}: values {:?} != expected {:?}", k, h.iter().map(|v| crate::ctx::short(v)).collect::<Vec<_>>(), vs.iter().map(|v| crate::ctx::short(v)).collect::<Vec<_>>())),
            _ => {}
        }
    }
    Ok(())
}

pub fn meta_json(spec: &MetaSpec) -> serde_json::Value {
    serde_json::Value::Array(
        spec.iter()
            .map(|(k, v)| match v {
                MVal::Ascii(s) => serde_json::json!([k, s]),
                MVal::Bin(b) => serde_json::json!([k, {"hex": crate::ctx::short(b)}]),
            })
            .collect(),
    )
}

pub const ALL_CODES: [tonic::Code; 17] = [
    tonic::Code::Ok,
    tonic::Code::Cancelled,
    tonic::Code::Unknown,
    tonic::Code::InvalidArgument,
    tonic::Code::DeadlineExceeded,
    tonic::Code::NotFound,
    tonic::Code::AlreadyExists,
    tonic::Code::PermissionDenied,
    tonic::Code::ResourceExhausted,
    tonic::Code::FailedPrecondition,
    tonic::Code::Aborted,
    tonic::Code::OutOfRange,
    tonic::Code::Unimplemented,
    tonic::Code::Internal,
    tonic::Code::Unavailable,
    tonic::Code::DataLoss,
    tonic::Code::Unauthenticated,
];

pub fn gen_details(rng: &mut Rng) -> Vec<u8> {
    match rng.below(4) {
        0 => Vec::new(),
        1 => rng.bytes_range(1, 3),
        _ => rng.bytes_range(1, 200),
    }
}
