//! Script-driven implementation of the generated `Verif` service, the client-side drivers, the
//! in-process Loopback transport (with re-chunking bodies) and the shared event log.
use crate::gen::*;
use crate::pb::verif::verif_server::Verif;
use crate::pb::Msg;
use crate::prng::Rng;
use crate::refc::MultiMap;
use bytes::Bytes;
use http_body::{Body, Frame};
use std::collections::HashMap;
use std::future::Future;
use std::pin::Pin;
use std::sync::atomic::{AtomicU64, Ordering};
use std::sync::{Arc, Mutex};
use std::task::{Context, Poll};
use tokio_stream::Stream;
use tonic::{Request, Response, Status, Streaming};

// ------------------------------------------------------------------ event log

#[derive(Clone, Debug)]
pub struct Event {
    pub seq: u64,
    /// virtual milliseconds since the scenario started (0 outside a tokio runtime)
    pub t_ms: u64,
    pub kind: String,
    pub id: String,
    pub detail: String,
}

#[derive(Clone, Default)]
pub struct EventLog {
    inner: Arc<Mutex<Vec<Event>>>,
    seq: Arc<AtomicU64>,
    t0: Arc<Mutex<Option<tokio::time::Instant>>>,
}

impl EventLog {
    pub fn new() -> Self {
        Self::default()
    }
    pub fn start_clock(&self) {
        *self.t0.lock().unwrap() = Some(tokio::time::Instant::now());
    }
    pub fn now_ms(&self) -> u64 {
        match *self.t0.lock().unwrap() {
            Some(t0) => tokio::time::Instant::now().duration_since(t0).as_millis() as u64,
            None => 0,
        }
    }
    pub fn push(&self, kind: &str, id: &str, detail: impl Into<String>) -> u64 {
        let seq = self.seq.fetch_add(1, Ordering::SeqCst);
        let t_ms = self.now_ms();
        self.inner.lock().unwrap().push(Event { seq, t_ms, kind: kind.into(), id: id.into(), detail: detail.into() });
        seq
    }
    pub fn snapshot(&self) -> Vec<Event> {
        let mut v = self.inner.lock().unwrap().clone();
        v.sort_by_key(|e| e.seq);
        v
    }
    pub fn find(&self, kind: &str, id: &str) -> Option<Event> {
        self.inner.lock().unwrap().iter().find(|e| e.kind == kind && e.id == id).cloned()
    }
}

// ------------------------------------------------------------------ scripts

#[derive(Clone, Debug, PartialEq)]
pub struct StatusSpec {
    pub code: i32,
    pub message: String,
    pub details: Vec<u8>,
    pub meta: MetaSpec,
}

impl StatusSpec {
    pub fn build(&self) -> Status {
        Status::with_details_and_metadata(tonic::Code::from_i32(self.code), self.message.clone(), self.details.clone().into(), build_meta(&self.meta))
    }
    pub fn json(&self) -> serde_json::Value {
        serde_json::json!({"code": self.code, "message": self.message, "details": crate::ctx::short(&self.details), "metadata": meta_json(&self.meta)})
    }
}

pub fn gen_status(rng: &mut Rng) -> StatusSpec {
    StatusSpec {
        code: rng.range(1, 16) as i32,
        message: if rng.chance(1, 5) { String::new() } else { rng.unicode(24) },
        details: gen_details(rng),
        meta: gen_meta(rng, 4, false),
    }
}

#[derive(Clone, Copy, Debug, PartialEq, Eq, Hash)]
pub enum Shape {
    Unary,
    ClientStream,
    ServerStream,
    Bidi,
}
pub const SHAPES: [Shape; 4] = [Shape::Unary, Shape::ClientStream, Shape::ServerStream, Shape::Bidi];

#[derive(Clone, Debug, Default)]
pub struct Script {
    pub initial_md: MetaSpec,
    pub msgs: Vec<Msg>,
    /// virtual delay before each message (needs a tokio runtime when non-zero)
    pub gaps_ms: Vec<u64>,
    /// virtual delay before the handler function returns (i.e. before response headers)
    pub latency_ms: u64,
    /// self-waking Pending polls before each message (runtime-free scheduling noise)
    pub pend: Vec<u8>,
    pub end: Option<StatusSpec>,
    /// fail from the handler function itself (trailers-only response)
    pub fail_up_front: bool,
    /// bidi: request messages to read before yielding message i
    pub reads_before: Vec<usize>,
    /// delay (virtual) before the final status / end of stream
    pub end_gap_ms: u64,
    pub disable_compression: bool,
    /// messages the handler's stream would still yield if it were polled again after its error
    /// item (a stream is free to continue after an `Err`; nothing of it may reach the peer)
    pub after_err: u8,
}

#[derive(Clone, Debug, Default)]
pub struct CallLog {
    pub entered: u32,
    pub shape: Option<Shape>,
    pub req_msgs: Vec<Msg>,
    pub req_meta: MultiMap,
    pub req_meta_err: Option<String>,
    /// how the request stream ended as seen by the handler: None = not drained
    pub req_end: Option<Result<(), String>>,
    pub peer_certs: Option<usize>,
    pub has_tls_info: bool,
    pub timeout_header: Option<String>,
}

#[derive(Clone, Default)]
pub struct Handler {
    pub scripts: Arc<Mutex<HashMap<String, Script>>>,
    pub logs: Arc<Mutex<HashMap<String, CallLog>>>,
    pub events: EventLog,
    pub total_entered: Arc<AtomicU64>,
}

struct YieldN(u8);
impl Future for YieldN {
    type Output = ();
    fn poll(mut self: Pin<&mut Self>, cx: &mut Context<'_>) -> Poll<()> {
        if self.0 == 0 {
            Poll::Ready(())
        } else {
            self.0 -= 1;
            cx.waker().wake_by_ref();
            Poll::Pending
        }
    }
}

async fn vsleep(ms: u64) {
    if ms > 0 {
        tokio::time::sleep(std::time::Duration::from_millis(ms)).await;
    }
}

type BoxStream = Pin<Box<dyn Stream<Item = Result<Msg, Status>> + Send>>;

struct Hinted {
    inner: BoxStream,
    left: usize,
    extra: usize,
}
impl Stream for Hinted {
    type Item = Result<Msg, Status>;
    fn poll_next(mut self: Pin<&mut Self>, cx: &mut Context<'_>) -> Poll<Option<Self::Item>> {
        let r = self.inner.as_mut().poll_next(cx);
        if let Poll::Ready(Some(_)) = &r {
            if self.left > 0 {
                self.left -= 1;
            } else if self.extra > 0 {
                self.extra -= 1;
            }
        }
        r
    }
    fn size_hint(&self) -> (usize, Option<usize>) {
        (self.left, Some(self.left + self.extra))
    }
}

impl Handler {
    pub fn new() -> Self {
        Self::default()
    }
    pub fn set_script(&self, id: &str, s: Script) {
        self.scripts.lock().unwrap().insert(id.to_string(), s);
    }
    pub fn log(&self, id: &str) -> CallLog {
        self.logs.lock().unwrap().get(id).cloned().unwrap_or_default()
    }
    fn enter<T>(&self, req: &Request<T>, shape: Shape) -> Result<(String, Script), Status> {
        self.total_entered.fetch_add(1, Ordering::SeqCst);
        let id = req
            .metadata()
            .get("x-script")
            .and_then(|v| v.to_str().ok())
            .map(|s| s.to_string())
            .unwrap_or_else(|| "default".into());
        let script = self.scripts.lock().unwrap().get(&id).cloned().unwrap_or_default();
        let mut logs = self.logs.lock().unwrap();
        let l = logs.entry(id.clone()).or_default();
        l.entered += 1;
        l.shape = Some(shape);
        match meta_multimap(req.metadata()) {
            Ok(mm) => l.req_meta = mm,
            Err(e) => l.req_meta_err = Some(e),
        }
        l.timeout_header = req.metadata().get("grpc-timeout").and_then(|v| v.to_str().ok()).map(|s| s.to_string());
        #[cfg(feature = "full")]
        {
            l.peer_certs = req.peer_certs().map(|c| c.len());
        }
        drop(logs);
        self.events.push("handler_enter", &id, format!("{:?}", shape));
        Ok((id, script))
    }
    fn respond<T>(&self, body: T, script: &Script) -> Response<T> {
        let mut r = Response::new(body);
        apply_meta(r.metadata_mut(), &script.initial_md);
        if script.disable_compression {
            r.disable_compression();
        }
        r
    }
    fn out_stream(&self, id: String, script: Script, reqs: Option<Streaming<Msg>>) -> BoxStream {
        // half of the scripts answer with a stream that knows its length (as `tokio_stream::iter`
        // or `empty()` do): exact lower bound, upper bound including what would follow an error
        let items = script.msgs.len() + script.end.is_some() as usize;
        let hinted = (script.msgs.len() + script.pend.len() + script.initial_md.len()) % 2 == 0;
        let inner = self.out_stream_plain(id, script.clone(), reqs);
        if hinted {
            Box::pin(Hinted { inner, left: items, extra: script.after_err as usize })
        } else {
            inner
        }
    }
    fn out_stream_plain(&self, id: String, script: Script, mut reqs: Option<Streaming<Msg>>) -> BoxStream {
        let this = self.clone();
        // state machine: i = next message index
        let st = (0usize, false);
        Box::pin(futures_util::stream::unfold((st, id, script, this, reqs.take()), |((i, done), id, script, this, mut reqs)| async move {
            if done {
                let extra = i - script.msgs.len().min(i);
                if script.end.is_some() && (extra as u8) < script.after_err {
                    this.events.push("handler_msg_after_error", &id, format!("{}", extra));
                    let m = Msg { data: vec![0xee; 3 + extra], seq: 9_000 + extra as u64, tag: "after-error".into() };
                    return Some((Ok(m), ((i + 1, true), id, script, this, reqs)));
                }
                return None;
            }
            if i < script.msgs.len() {
                if let Some(rs) = reqs.as_mut() {
                    let want = script.reads_before.get(i).copied().unwrap_or(0);
                    for _ in 0..want {
                        match rs.message().await {
                            Ok(Some(m)) => this.logs.lock().unwrap().entry(id.clone()).or_default().req_msgs.push(m),
                            Ok(None) => {
                                this.logs.lock().unwrap().entry(id.clone()).or_default().req_end = Some(Ok(()));
                                break;
                            }
                            Err(e) => {
                                this.logs.lock().unwrap().entry(id.clone()).or_default().req_end = Some(Err(format!("{:?}", e.code())));
                                break;
                            }
                        }
                    }
                }
                vsleep(script.gaps_ms.get(i).copied().unwrap_or(0)).await;
                YieldN(script.pend.get(i).copied().unwrap_or(0)).await;
                let m = script.msgs[i].clone();
                this.events.push("handler_msg", &id, format!("{}", i));
                return Some((Ok(m), ((i + 1, false), id, script, this, reqs)));
            }
            // drain the rest of the request stream (bidi) before finishing
            if let Some(rs) = reqs.as_mut() {
                let already = this.logs.lock().unwrap().get(&id).map(|l| l.req_end.is_some()).unwrap_or(false);
                if !already {
                    loop {
                        match rs.message().await {
                            Ok(Some(m)) => this.logs.lock().unwrap().entry(id.clone()).or_default().req_msgs.push(m),
                            Ok(None) => {
                                this.logs.lock().unwrap().entry(id.clone()).or_default().req_end = Some(Ok(()));
                                break;
                            }
                            Err(e) => {
                                this.logs.lock().unwrap().entry(id.clone()).or_default().req_end = Some(Err(format!("{:?}", e.code())));
                                break;
                            }
                        }
                    }
                }
            }
            vsleep(script.end_gap_ms).await;
            this.events.push("handler_exit", &id, if script.end.is_some() { "err" } else { "ok" });
            match &script.end {
                Some(s) => Some((Err(s.build()), ((i, true), id, script, this, reqs))),
                None => None,
            }
        }))
    }
    async fn drain(&self, id: &str, mut rs: Streaming<Msg>) {
        loop {
            match rs.message().await {
                Ok(Some(m)) => self.logs.lock().unwrap().entry(id.to_string()).or_default().req_msgs.push(m),
                Ok(None) => {
                    self.logs.lock().unwrap().entry(id.to_string()).or_default().req_end = Some(Ok(()));
                    break;
                }
                Err(e) => {
                    self.logs.lock().unwrap().entry(id.to_string()).or_default().req_end = Some(Err(format!("{:?}", e.code())));
                    break;
                }
            }
        }
    }
}

#[tonic::async_trait]
impl Verif for Handler {
    async fn unary(&self, request: Request<Msg>) -> Result<Response<Msg>, Status> {
        let (id, script) = self.enter(&request, Shape::Unary)?;
        {
            let mut l = self.logs.lock().unwrap();
            let e = l.entry(id.clone()).or_default();
            e.req_msgs.push(request.into_inner());
            e.req_end = Some(Ok(()));
        }
        vsleep(script.latency_ms).await;
        YieldN(script.pend.first().copied().unwrap_or(0)).await;
        self.events.push("handler_exit", &id, if script.end.is_some() { "err" } else { "ok" });
        match &script.end {
            Some(s) => Err(s.build()),
            None => Ok(self.respond(script.msgs.first().cloned().unwrap_or_default(), &script)),
        }
    }
    async fn client_stream(&self, request: Request<Streaming<Msg>>) -> Result<Response<Msg>, Status> {
        let (id, script) = self.enter(&request, Shape::ClientStream)?;
        if !script.fail_up_front {
            self.drain(&id, request.into_inner()).await;
        }
        vsleep(script.latency_ms).await;
        YieldN(script.pend.first().copied().unwrap_or(0)).await;
        self.events.push("handler_exit", &id, if script.end.is_some() { "err" } else { "ok" });
        match &script.end {
            Some(s) => Err(s.build()),
            None => Ok(self.respond(script.msgs.first().cloned().unwrap_or_default(), &script)),
        }
    }
    type ServerStreamStream = BoxStream;
    async fn server_stream(&self, request: Request<Msg>) -> Result<Response<BoxStream>, Status> {
        let (id, script) = self.enter(&request, Shape::ServerStream)?;
        {
            let mut l = self.logs.lock().unwrap();
            let e = l.entry(id.clone()).or_default();
            e.req_msgs.push(request.into_inner());
            e.req_end = Some(Ok(()));
        }
        vsleep(script.latency_ms).await;
        if script.fail_up_front {
            self.events.push("handler_exit", &id, "err-up-front");
            return Err(script.end.clone().expect("verif-harness-bug: fail_up_front needs a status").build());
        }
        self.events.push("handler_headers", &id, "");
        let s = self.out_stream(id, script.clone(), None);
        Ok(self.respond(s, &script))
    }
    type BidiStream = BoxStream;
    async fn bidi(&self, request: Request<Streaming<Msg>>) -> Result<Response<BoxStream>, Status> {
        let (id, script) = self.enter(&request, Shape::Bidi)?;
        vsleep(script.latency_ms).await;
        if script.fail_up_front {
            self.events.push("handler_exit", &id, "err-up-front");
            return Err(script.end.clone().expect("verif-harness-bug: fail_up_front needs a status").build());
        }
        self.events.push("handler_headers", &id, "");
        let s = self.out_stream(id, script.clone(), Some(request.into_inner()));
        Ok(self.respond(s, &script))
    }
}

// ------------------------------------------------------------------ what the client saw

#[derive(Clone, Debug, Default)]
pub struct ClientView {
    /// Err from the call itself (before any stream), or None
    pub call_err: Option<StatusView>,
    pub head_meta: MultiMap,
    pub head_meta_err: Option<String>,
    pub msgs: Vec<Msg>,
    /// how the stream ended: Ok(()) clean, Err(status)
    pub end: Option<Result<(), StatusView>>,
    pub trailer_meta: Option<MultiMap>,
    pub finished: bool,
}

#[derive(Clone, Debug, PartialEq)]
pub struct StatusView {
    pub code: i32,
    pub message: String,
    pub details: Vec<u8>,
    pub meta: Result<MultiMap, String>,
}

pub fn view_status(s: &Status) -> StatusView {
    StatusView { code: s.code() as i32, message: s.message().to_string(), details: s.details().to_vec(), meta: meta_multimap(s.metadata()) }
}

/// Ping-pong gate: request `i` is released only after the client has seen `min(i, replies)`
/// response messages (an interactive caller that sends its next request after reading the reply).
pub struct Gate {
    seen: std::sync::atomic::AtomicUsize,
    replies: usize,
    waker: Mutex<Option<std::task::Waker>>,
}
impl Gate {
    pub fn new(replies: usize) -> Arc<Gate> {
        Arc::new(Gate { seen: std::sync::atomic::AtomicUsize::new(0), replies, waker: Mutex::new(None) })
    }
    pub fn bump(&self, to_end: bool) {
        if to_end {
            self.seen.store(usize::MAX / 2, Ordering::SeqCst);
        } else {
            self.seen.fetch_add(1, Ordering::SeqCst);
        }
        if let Some(w) = self.waker.lock().unwrap().take() {
            w.wake();
        }
    }
}

/// A request stream that yields its items with scripted Pending polls in between.
pub struct ReqStream {
    pub gate: Option<Arc<Gate>>,
    items: std::vec::IntoIter<Msg>,
    pend: Vec<u8>,
    i: usize,
    left: u8,
    gaps_ms: Vec<u64>,
    sleep: Option<Pin<Box<tokio::time::Sleep>>>,
}
impl ReqStream {
    pub fn new(items: Vec<Msg>, pend: Vec<u8>, gaps_ms: Vec<u64>) -> Self {
        let left = pend.first().copied().unwrap_or(0);
        ReqStream { gate: None, items: items.into_iter(), pend, i: 0, left, gaps_ms, sleep: None }
    }
}
impl Stream for ReqStream {
    type Item = Msg;
    fn poll_next(mut self: Pin<&mut Self>, cx: &mut Context<'_>) -> Poll<Option<Msg>> {
        let gap = self.gaps_ms.get(self.i).copied().unwrap_or(0);
        if gap > 0 {
            if self.sleep.is_none() {
                self.sleep = Some(Box::pin(tokio::time::sleep(std::time::Duration::from_millis(gap))));
            }
            if self.sleep.as_mut().unwrap().as_mut().poll(cx).is_pending() {
                return Poll::Pending;
            }
            self.sleep = None;
            let i = self.i;
            if let Some(g) = self.gaps_ms.get_mut(i) {
                *g = 0;
            }
        }
        if self.left > 0 {
            self.left -= 1;
            cx.waker().wake_by_ref();
            return Poll::Pending;
        }
        if let Some(g) = &self.gate {
            // no self-wake here: if the reply never comes this must show as a stall, not a spin
            let mut w = g.waker.lock().unwrap();
            if g.seen.load(Ordering::SeqCst) < self.i.min(g.replies) {
                *w = Some(cx.waker().clone());
                return Poll::Pending;
            }
        }
        self.i += 1;
        self.left = self.pend.get(self.i).copied().unwrap_or(0);
        Poll::Ready(self.items.next())
    }
}

pub struct CallSpec {
    pub id: String,
    pub shape: Shape,
    pub req_msgs: Vec<Msg>,
    pub req_meta: MetaSpec,
    pub req_pend: Vec<u8>,
    pub req_gaps_ms: Vec<u64>,
    pub timeout: Option<std::time::Duration>,
    /// bidi only: send request i only after min(i, number of scripted replies) replies were read
    pub pingpong: Option<usize>,
}

fn mk_request<T>(body: T, spec: &CallSpec) -> Request<T> {
    let mut r = Request::new(body);
    apply_meta(r.metadata_mut(), &spec.req_meta);
    r.metadata_mut().insert("x-script", spec.id.parse().expect("verif-harness-bug: script id"));
    if let Some(t) = spec.timeout {
        r.set_timeout(t);
    }
    r
}

thread_local! {
    /// When set to `Some(j)`, the client asks for `trailers()` after reading j messages instead
    /// of reading the stream to its end first (`trailers()` drains what is left).
    pub static EARLY_TRAILERS: std::cell::Cell<Option<usize>> = const { std::cell::Cell::new(None) };
}

async fn drain_stream(view: &mut ClientView, mut st: Streaming<Msg>, events: Option<(&EventLog, &str)>, gate: Option<Arc<Gate>>) {
    let early = EARLY_TRAILERS.with(|c| c.get());
    loop {
        if early == Some(view.msgs.len()) {
            match st.trailers().await {
                Ok(t) => {
                    view.end = Some(Ok(()));
                    view.trailer_meta = t.and_then(|t| meta_multimap(&t).ok());
                }
                Err(s) => view.end = Some(Err(view_status(&s))),
            }
            if let Some(g) = &gate {
                g.bump(true);
            }
            return;
        }
        match st.message().await {
            Ok(Some(m)) => {
                if let Some((ev, id)) = events {
                    ev.push("client_msg", id, format!("{}", view.msgs.len()));
                }
                view.msgs.push(m);
                if let Some(g) = &gate {
                    g.bump(false);
                }
            }
            Ok(None) => {
                view.end = Some(Ok(()));
                if let Some(g) = &gate {
                    g.bump(true);
                }
                break;
            }
            Err(s) => {
                view.end = Some(Err(view_status(&s)));
                if let Some(g) = &gate {
                    g.bump(true);
                }
                break;
            }
        }
    }
    if let Some(Ok(())) = view.end {
        if let Ok(Some(t)) = st.trailers().await {
            view.trailer_meta = meta_multimap(&t).ok();
        }
    }
}

/// Issue one call with the generated client and record everything the client API shows.
pub async fn do_call<T>(client: &mut crate::pb::verif::verif_client::VerifClient<T>, spec: &CallSpec, events: Option<&EventLog>) -> ClientView
where
    T: tonic::client::GrpcService<tonic::body::Body>,
    T::Error: Into<Box<dyn std::error::Error + Send + Sync>>,
    T::ResponseBody: Body<Data = Bytes> + Send + 'static,
    <T::ResponseBody as Body>::Error: Into<Box<dyn std::error::Error + Send + Sync>> + Send,
{
    let mut view = ClientView::default();
    if let Some(ev) = events {
        ev.push("call_start", &spec.id, format!("{:?}", spec.shape));
    }
    let first = spec.req_msgs.first().cloned().unwrap_or_default();
    match spec.shape {
        Shape::Unary => match client.unary(mk_request(first, spec)).await {
            Ok(r) => {
                match meta_multimap(r.metadata()) {
                    Ok(m) => view.head_meta = m,
                    Err(e) => view.head_meta_err = Some(e),
                }
                view.msgs.push(r.into_inner());
                view.end = Some(Ok(()));
            }
            Err(s) => view.call_err = Some(view_status(&s)),
        },
        Shape::ClientStream => {
            let rs = ReqStream::new(spec.req_msgs.clone(), spec.req_pend.clone(), spec.req_gaps_ms.clone());
            match client.client_stream(mk_request(rs, spec)).await {
                Ok(r) => {
                    match meta_multimap(r.metadata()) {
                        Ok(m) => view.head_meta = m,
                        Err(e) => view.head_meta_err = Some(e),
                    }
                    view.msgs.push(r.into_inner());
                    view.end = Some(Ok(()));
                }
                Err(s) => view.call_err = Some(view_status(&s)),
            }
        }
        Shape::ServerStream => match client.server_stream(mk_request(first, spec)).await {
            Ok(r) => {
                match meta_multimap(r.metadata()) {
                    Ok(m) => view.head_meta = m,
                    Err(e) => view.head_meta_err = Some(e),
                }
                if let Some(ev) = events {
                    ev.push("client_headers", &spec.id, "");
                }
                drain_stream(&mut view, r.into_inner(), events.map(|e| (e, spec.id.as_str())), None).await;
            }
            Err(s) => view.call_err = Some(view_status(&s)),
        },
        Shape::Bidi => {
            let mut rs = ReqStream::new(spec.req_msgs.clone(), spec.req_pend.clone(), spec.req_gaps_ms.clone());
            let gate = spec.pingpong.map(Gate::new);
            rs.gate = gate.clone();
            match client.bidi(mk_request(rs, spec)).await {
                Ok(r) => {
                    match meta_multimap(r.metadata()) {
                        Ok(m) => view.head_meta = m,
                        Err(e) => view.head_meta_err = Some(e),
                    }
                    if let Some(ev) = events {
                        ev.push("client_headers", &spec.id, "");
                    }
                    drain_stream(&mut view, r.into_inner(), events.map(|e| (e, spec.id.as_str())), gate.clone()).await;
                }
                Err(s) => view.call_err = Some(view_status(&s)),
            }
        }
    }
    view.finished = true;
    if let Some(ev) = events {
        let outcome = match (&view.call_err, &view.end) {
            (Some(s), _) => format!("call_err:{}", s.code),
            (None, Some(Ok(()))) => format!("ok:{}", view.msgs.len()),
            (None, Some(Err(s))) => format!("err:{}:{}", s.code, view.msgs.len()),
            _ => "open".into(),
        };
        ev.push("call_end", &spec.id, outcome);
    }
    view
}

// ------------------------------------------------------------------ reference model (C02)

/// Compare what the client saw with what the script says it must see.  Returns deviations as
/// (deviation-name, description).
pub fn judge_call(shape: Shape, script: &Script, view: &ClientView) -> Vec<(String, String)> {
    let mut dev = Vec::new();
    let status_eq = |want: &StatusSpec, got: &StatusView, dev: &mut Vec<(String, String)>, place: &str| {
        if got.code != want.code {
            dev.push(("status-code".into(), format!("{}: code {} want {}", place, got.code, want.code)));
        }
        if got.message != want.message {
            dev.push(("status-message".into(), format!("{}: message {:?} want {:?}", place, got.message, want.message)));
        }
        if got.details != want.details {
            dev.push(("status-details".into(), format!("{}: details differ", place)));
        }
        match &got.meta {
            Err(e) => dev.push(("status-metadata".into(), format!("{}: {}", place, e))),
            Ok(mm) => {
                if let Err(e) = multimap_includes(mm, &spec_multimap(&want.meta)) {
                    dev.push(("status-metadata".into(), format!("{}: {}", place, e)));
                }
            }
        }
    };
    if !view.finished {
        dev.push(("call-open".into(), "the call never completed".into()));
        return dev;
    }
    let streaming_resp = matches!(shape, Shape::ServerStream | Shape::Bidi);
    let fails_at_call = script.end.is_some() && (!streaming_resp || script.fail_up_front);
    if fails_at_call {
        let want = script.end.as_ref().unwrap();
        match (&view.call_err, &view.end) {
            (Some(got), _) => status_eq(want, got, &mut dev, "call error"),
            // where a streaming response surfaces a failure that precedes every message - from
            // the call itself or as the first item of the stream - is not constrained
            (None, Some(Err(got))) if streaming_resp => {
                if !view.msgs.is_empty() {
                    dev.push(("messages-extra".into(), format!("client saw {} messages although the handler failed before producing any", view.msgs.len())));
                }
                status_eq(want, got, &mut dev, "stream error");
            }
            (None, _) => dev.push(("error-swallowed".into(), format!("handler failed with code {} but the call returned Ok", want.code))),
        }
        return dev;
    }
    if let Some(e) = &view.call_err {
        dev.push(("spurious-call-error".into(), format!("handler succeeded (so far) but the call failed with code {} {:?}", e.code, e.message)));
        return dev;
    }
    if let Some(e) = &view.head_meta_err {
        dev.push(("head-metadata".into(), e.clone()));
    } else if let Err(e) = multimap_includes(&view.head_meta, &spec_multimap(&script.initial_md)) {
        dev.push(("head-metadata".into(), format!("initial metadata: {}", e)));
    }
    let want_msgs: Vec<Msg> = if streaming_resp { script.msgs.clone() } else { vec![script.msgs.first().cloned().unwrap_or_default()] };
    if view.msgs != want_msgs {
        let n = view.msgs.iter().zip(&want_msgs).take_while(|(a, b)| a == b).count();
        dev.push((
            if view.msgs.len() < want_msgs.len() { "messages-lost".into() } else if view.msgs.len() > want_msgs.len() { "messages-extra".into() } else { "messages-differ".into() },
            format!("client saw {} messages, handler produced {} (first {} equal)", view.msgs.len(), want_msgs.len(), n),
        ));
    }
    match (&script.end, &view.end) {
        (None, Some(Ok(()))) => {}
        (None, Some(Err(s))) => dev.push(("spurious-stream-error".into(), format!("handler ended OK, client stream failed with {} {:?}", s.code, s.message))),
        (Some(w), Some(Err(s))) => status_eq(w, s, &mut dev, "stream error"),
        (Some(w), Some(Ok(()))) => dev.push(("error-swallowed".into(), format!("handler ended with code {}, client stream ended cleanly", w.code))),
        (_, None) => dev.push(("no-end".into(), "stream did not end".into())),
    }
    dev
}

/// Compare what the handler received with what the caller sent.
pub fn judge_request(spec: &CallSpec, script: &Script, log: &CallLog) -> Vec<(String, String)> {
    let mut dev = Vec::new();
    if log.entered != 1 {
        dev.push(("handler-count".into(), format!("handler entered {} times", log.entered)));
        return dev;
    }
    if let Some(e) = &log.req_meta_err {
        dev.push(("request-metadata".into(), e.clone()));
    } else if let Err(e) = multimap_includes(&log.req_meta, &spec_multimap(&spec.req_meta)) {
        dev.push(("request-metadata".into(), e));
    }
    let streaming_req = matches!(spec.shape, Shape::ClientStream | Shape::Bidi);
    if script.fail_up_front && streaming_req {
        return dev; // handler did not read the request stream
    }
    let want: Vec<Msg> = if streaming_req { spec.req_msgs.clone() } else { vec![spec.req_msgs.first().cloned().unwrap_or_default()] };
    if log.req_msgs != want {
        dev.push(("request-messages".into(), format!("handler received {} request messages, caller sent {}", log.req_msgs.len(), want.len())));
    }
    if streaming_req {
        match &log.req_end {
            Some(Ok(())) => {}
            Some(Err(e)) => dev.push(("request-stream-error".into(), format!("request stream failed at the handler: {}", e))),
            None => dev.push(("request-stream-open".into(), "handler never saw the end of the request stream".into())),
        }
    }
    dev
}

// ------------------------------------------------------------------ Loopback transport with re-chunking bodies

/// Body adaptor: splits/merges DATA frames at PRNG-chosen places and injects self-waking Pendings.
/// Never withholds data across a Pending of the inner body (so ping-pong protocols cannot deadlock).
pub struct Rechunk<B> {
    inner: Pin<Box<B>>,
    rng: Rng,
    carry: Vec<u8>,
    queue: std::collections::VecDeque<Frame<Bytes>>,
    inner_done: bool,
    pend_budget: u8,
    pub stats: Arc<RechunkStats>,
    max_piece: usize,
    /// peer behaviour: re-encode `-bin` trailer values with '=' padding
    pub pad_bin: bool,
    pub trailers_tap: Option<Arc<Mutex<Vec<http::HeaderMap>>>>,
    /// raw DATA bytes as the inner body produced them
    pub data_tap: Option<Arc<Mutex<Vec<u8>>>>,
    /// after the inner body ended, poll it 3 more times and count anything it still yields
    pub probe_after_end: bool,
    seen_trailers: bool,
}

/// What a padding peer does to binary metadata: same bytes, padded base64.
pub fn repad_bin(h: &mut http::HeaderMap) {
    let keys: Vec<http::HeaderName> = h.keys().filter(|k| k.as_str().ends_with("-bin")).cloned().collect();
    for k in keys {
        let vals: Vec<Vec<u8>> = h.get_all(&k).iter().map(|v| v.as_bytes().to_vec()).collect();
        h.remove(&k);
        for v in vals {
            let nv = match crate::refc::b64_decode(&v) {
                Some(d) => crate::refc::b64_encode(&d, true).into_bytes(),
                None => v,
            };
            h.append(k.clone(), http::HeaderValue::from_bytes(&nv).unwrap());
        }
    }
}

#[derive(Default, Debug)]
pub struct RechunkStats {
    pub splits: AtomicU64,
    pub merges: AtomicU64,
    pub pendings: AtomicU64,
    pub bytes: AtomicU64,
    /// frames an inner body yielded after its trailers or after its end
    pub after_end_frames: AtomicU64,
}

impl<B: Body<Data = Bytes>> Rechunk<B> {
    pub fn new(inner: B, rng: Rng, stats: Arc<RechunkStats>, max_piece: usize) -> Self {
        Rechunk { inner: Box::pin(inner), rng, carry: Vec::new(), queue: Default::default(), inner_done: false, pend_budget: 0, stats, max_piece, pad_bin: false, trailers_tap: None, data_tap: None, probe_after_end: false, seen_trailers: false }
    }
    fn enqueue_data(&mut self, data: Vec<u8>) {
        // cut into pieces; maybe keep the last piece as carry (merged with the next frame).
        // Every piece is its own exact-size allocation (a piece that kept the capacity of what
        // it was split from made large messages cost quadratic memory).
        let mut at = 0;
        while at < data.len() {
            let n = self.rng.urange(1, self.max_piece.max(1)).min(data.len() - at);
            let last = at + n == data.len();
            if last && self.rng.chance(1, 3) {
                self.carry = data[at..].to_vec();
                return;
            }
            if !last {
                self.stats.splits.fetch_add(1, Ordering::Relaxed);
            }
            self.queue.push_back(Frame::data(Bytes::copy_from_slice(&data[at..at + n])));
            at += n;
        }
    }
    fn flush_carry(&mut self) {
        if !self.carry.is_empty() {
            let c = std::mem::take(&mut self.carry);
            self.queue.push_back(Frame::data(Bytes::from(c)));
        }
    }
}

impl<B> Body for Rechunk<B>
where
    B: Body<Data = Bytes>,
{
    type Data = Bytes;
    type Error = B::Error;
    fn poll_frame(mut self: Pin<&mut Self>, cx: &mut Context<'_>) -> Poll<Option<Result<Frame<Bytes>, B::Error>>> {
        let this = &mut *self;
        loop {
            if let Some(f) = this.queue.pop_front() {
                if this.pend_budget == 0 && this.rng.chance(1, 4) {
                    this.pend_budget = 1;
                    this.queue.push_front(f);
                    this.stats.pendings.fetch_add(1, Ordering::Relaxed);
                    cx.waker().wake_by_ref();
                    return Poll::Pending;
                }
                this.pend_budget = 0;
                return Poll::Ready(Some(Ok(f)));
            }
            if this.inner_done {
                return Poll::Ready(None);
            }
            match this.inner.as_mut().poll_frame(cx) {
                Poll::Pending => {
                    if !this.carry.is_empty() {
                        this.flush_carry();
                        continue;
                    }
                    return Poll::Pending;
                }
                Poll::Ready(None) => {
                    this.inner_done = true;
                    this.flush_carry();
                    if this.probe_after_end {
                        for _ in 0..3 {
                            if let Poll::Ready(Some(_)) = this.inner.as_mut().poll_frame(cx) {
                                this.stats.after_end_frames.fetch_add(1, Ordering::Relaxed);
                            }
                        }
                    }
                }
                Poll::Ready(Some(Err(e))) => {
                    // deliver what we hold first? an error aborts the stream: drop carry like a reset would
                    this.inner_done = true;
                    return Poll::Ready(Some(Err(e)));
                }
                Poll::Ready(Some(Ok(f))) => {
                    if this.seen_trailers {
                        this.stats.after_end_frames.fetch_add(1, Ordering::Relaxed);
                    }
                    if f.is_data() {
                        let d = f.into_data().ok().unwrap();
                        if let Some(t) = &this.data_tap {
                            t.lock().unwrap().extend_from_slice(&d);
                        }
                        this.stats.bytes.fetch_add(d.len() as u64, Ordering::Relaxed);
                        let mut v = std::mem::take(&mut this.carry);
                        if !v.is_empty() {
                            this.stats.merges.fetch_add(1, Ordering::Relaxed);
                        }
                        v.extend_from_slice(&d);
                        this.enqueue_data(v);
                    } else {
                        this.flush_carry();
                        this.seen_trailers = true;
                        let mut t = f.into_trailers().ok().unwrap();
                        if let Some(tap) = &this.trailers_tap {
                            tap.lock().unwrap().push(t.clone());
                        }
                        if this.pad_bin {
                            repad_bin(&mut t);
                        }
                        this.queue.push_back(Frame::trailers(t));
                        if this.probe_after_end {
                            // a real peer stops reading at the trailers; the probe keeps polling to
                            // see whether the body would produce anything after its final status
                            for _ in 0..6 {
                                match this.inner.as_mut().poll_frame(cx) {
                                    Poll::Ready(Some(Ok(f))) => {
                                        this.stats.after_end_frames.fetch_add(1, Ordering::Relaxed);
                                        if let (Ok(t2), Some(tap)) = (f.into_trailers(), &this.trailers_tap) {
                                            tap.lock().unwrap().push(t2);
                                        }
                                    }
                                    Poll::Ready(Some(Err(_))) => {
                                        this.stats.after_end_frames.fetch_add(1, Ordering::Relaxed);
                                    }
                                    Poll::Ready(None) => {
                                        this.inner_done = true;
                                        break;
                                    }
                                    Poll::Pending => {}
                                }
                            }
                        }
                    }
                }
            }
        }
    }
}

/// Client-side `GrpcService` that calls a server `tower::Service` in-process, re-chunking both
/// bodies.  No HTTP/2: this is the fast transport.
#[derive(Clone)]
pub struct Loopback<S> {
    pub svc: S,
    pub seed: u64,
    pub counter: Arc<AtomicU64>,
    pub stats: Arc<RechunkStats>,
    pub max_piece: usize,
    /// record the last request head seen (method, version, uri, headers)
    pub tap: Arc<Mutex<Vec<http::request::Parts>>>,
    pub resp_tap: Arc<Mutex<Vec<http::response::Parts>>>,
    pub trailers_tap: Arc<Mutex<Vec<http::HeaderMap>>>,
    pub req_trailers_tap: Arc<Mutex<Vec<http::HeaderMap>>>,
    pub req_body_tap: Arc<Mutex<Vec<u8>>>,
    pub resp_body_tap: Arc<Mutex<Vec<u8>>>,
    pub probe_after_end: bool,
    /// the "network peer" re-pads binary metadata in both directions (after the taps)
    pub pad_bin: bool,
    /// the response body fails like a reset stream (CANCELLED) after this many DATA frames
    pub reset_response_after: Option<usize>,
}

/// Response body that breaks off with a CANCELLED body error after `left` DATA frames - what the
/// client's transport reports when the peer resets the stream before its trailers.
pub struct ResetAfter {
    inner: tonic::body::Body,
    left: Option<usize>,
}
impl Body for ResetAfter {
    type Data = Bytes;
    type Error = Status;
    fn poll_frame(mut self: Pin<&mut Self>, cx: &mut Context<'_>) -> Poll<Option<Result<Frame<Bytes>, Status>>> {
        if self.left == Some(0) {
            self.left = None;
            self.inner = tonic::body::Body::default();
            return Poll::Ready(Some(Err(Status::cancelled("verif: scripted stream reset"))));
        }
        let r = Pin::new(&mut self.inner).poll_frame(cx);
        if let Poll::Ready(Some(Ok(f))) = &r {
            if f.is_data() {
                if let Some(n) = self.left.as_mut() {
                    *n -= 1;
                }
            } else if self.left.is_some() {
                // the trailers are what a reset pre-empts: break off instead of delivering them
                self.left = None;
                self.inner = tonic::body::Body::default();
                return Poll::Ready(Some(Err(Status::cancelled("verif: scripted stream reset"))));
            }
        }
        r
    }
}

impl<S> Loopback<S> {
    pub fn new(svc: S, seed: u64, max_piece: usize) -> Self {
        Loopback { svc, seed, counter: Arc::new(AtomicU64::new(0)), stats: Arc::new(RechunkStats::default()), max_piece, tap: Default::default(), resp_tap: Default::default(), trailers_tap: Default::default(), req_trailers_tap: Default::default(), req_body_tap: Default::default(), resp_body_tap: Default::default(), probe_after_end: false, pad_bin: false, reset_response_after: None }
    }
}

impl<S, RB> tower_service::Service<http::Request<tonic::body::Body>> for Loopback<S>
where
    S: tower_service::Service<http::Request<Rechunk<tonic::body::Body>>, Response = http::Response<RB>> + Clone + Send + 'static,
    S::Future: Send + 'static,
    S::Error: Send + 'static,
    RB: Body<Data = Bytes> + Send + 'static,
    RB::Error: Into<Box<dyn std::error::Error + Send + Sync>>,
{
    // boxed into tonic's own body type (which has the `Default` the generated `with_interceptor`
    // constructor asks of a transport's response body)
    type Response = http::Response<tonic::body::Body>;
    type Error = S::Error;
    type Future = Pin<Box<dyn Future<Output = Result<Self::Response, S::Error>> + Send>>;
    fn poll_ready(&mut self, cx: &mut Context<'_>) -> Poll<Result<(), S::Error>> {
        self.svc.poll_ready(cx)
    }
    fn call(&mut self, req: http::Request<tonic::body::Body>) -> Self::Future {
        let n = self.counter.fetch_add(1, Ordering::SeqCst);
        let r1 = Rng::new(self.seed ^ (n.wrapping_mul(0x9E37_79B9)));
        let r2 = Rng::new(self.seed.rotate_left(13) ^ n);
        let (mut parts, body) = req.into_parts();
        {
            let mut p = http::Request::new(()).into_parts().0;
            p.method = parts.method.clone();
            p.uri = parts.uri.clone();
            p.version = parts.version;
            p.headers = parts.headers.clone();
            self.tap.lock().unwrap().push(p);
        }
        if self.pad_bin {
            repad_bin(&mut parts.headers);
        }
        let mut qb = Rechunk::new(body, r1, self.stats.clone(), self.max_piece);
        qb.data_tap = Some(self.req_body_tap.clone());
        qb.trailers_tap = Some(self.req_trailers_tap.clone());
        qb.probe_after_end = self.probe_after_end;
        let req = http::Request::from_parts(parts, qb);
        let fut = self.svc.call(req);
        let stats = self.stats.clone();
        let mp = self.max_piece;
        let rtap = self.resp_tap.clone();
        let ttap = self.trailers_tap.clone();
        let pad = self.pad_bin;
        let probe = self.probe_after_end;
        let rbtap = self.resp_body_tap.clone();
        let reset_after = self.reset_response_after;
        Box::pin(async move {
            let resp = fut.await?;
            let (mut parts, body) = resp.into_parts();
            {
                let mut p = http::Response::new(()).into_parts().0;
                p.status = parts.status;
                p.version = parts.version;
                p.headers = parts.headers.clone();
                rtap.lock().unwrap().push(p);
            }
            if pad {
                repad_bin(&mut parts.headers);
            }
            let body = ResetAfter { inner: tonic::body::Body::new(body), left: reset_after };
            let mut rb = Rechunk::new(body, r2, stats, mp);
            rb.pad_bin = pad;
            rb.trailers_tap = Some(ttap);
            rb.data_tap = Some(rbtap);
            rb.probe_after_end = probe;
            Ok(http::Response::from_parts(parts, tonic::body::Body::new(rb)))
        })
    }
}

