//! Run configuration, per-shard observation context, parallel case runner, merging.
use crate::prng::Rng;
use serde_json::{json, Value};
use std::collections::{BTreeMap, BTreeSet};
use std::panic::{catch_unwind, AssertUnwindSafe};
use std::sync::atomic::{AtomicBool, Ordering};
use std::sync::Mutex;
use std::time::{Duration, Instant};

#[derive(Clone, Debug)]
pub struct RunCfg {
    pub property: String,
    pub thorough: bool,
    pub seed: u64,
    pub threads: usize,
    /// multiply the per-monitor case counts (used by the Miri / memcheck legs to shrink)
    pub scale_num: u64,
    pub scale_den: u64,
    /// run only this (monitor, index)
    pub only: Option<(String, u64)>,
    pub verbose: bool,
    pub started: Instant,
    /// soft wall budget: monitors stop issuing new cases after this (evidence records it)
    pub soft_budget: Duration,
}

impl RunCfg {
    pub fn n(&self, quick: u64, thorough: u64) -> u64 {
        let base = if self.thorough { thorough } else { quick };
        (base * self.scale_num / self.scale_den).max(1)
    }
    pub fn tier(&self) -> &'static str {
        if self.thorough {
            "thorough"
        } else {
            "quick"
        }
    }
}

#[derive(Clone, Debug)]
pub struct Violation {
    pub monitor: String,
    /// `<monitor>/<deviation>/<input-class>`
    pub signature: String,
    pub what: String,
    pub index: u64,
    pub case: Value,
    pub count: u64,
}

#[derive(Default, Debug)]
pub struct Ctx {
    pub evals: u64,
    /// coverage fingerprint -> count
    pub fingerprints: BTreeMap<String, u64>,
    pub nontrivial: BTreeSet<String>,
    pub counters: BTreeMap<String, u64>,
    pub samples: Vec<Value>,
    pub violations: BTreeMap<String, Violation>,
    pub inconclusive: Vec<String>,
    /// named sets of hashes: how many *distinct* things of a kind were observed (event orders, histories)
    pub distinct_sets: BTreeMap<String, BTreeSet<u64>>,
    pub max_samples: usize,
    // current case (for panic attribution)
    pub cur_monitor: String,
    pub cur_index: u64,
    pub cur_class: String,
    pub cur_case: Value,
    pub budget_cut: bool,
}

impl Ctx {
    pub fn new() -> Self {
        Ctx {
            max_samples: 2,
            ..Default::default()
        }
    }
    pub fn count(&mut self, k: &str) {
        *self.counters.entry(k.to_string()).or_insert(0) += 1;
    }
    pub fn add(&mut self, k: &str, n: u64) {
        *self.counters.entry(k.to_string()).or_insert(0) += n;
    }
    pub fn max(&mut self, k: &str, n: u64) {
        let e = self.counters.entry(k.to_string()).or_insert(0);
        if n > *e {
            *e = n;
        }
    }
    /// Register the coverage fingerprint of the case just run.
    pub fn fingerprint(&mut self, fp: String, nontrivial: bool) {
        if nontrivial {
            self.nontrivial.insert(fp.clone());
        }
        *self.fingerprints.entry(fp).or_insert(0) += 1;
    }
    pub fn distinct(&mut self, set: &str, what: &str) {
        self.distinct_sets.entry(set.to_string()).or_default().insert(crate::prng::hash_str(what));
    }
    pub fn sample(&mut self, v: Value) {
        if self.samples.len() < self.max_samples {
            self.samples.push(v);
        }
    }
    /// Describe the case about to run: used if it panics, and for violations.
    pub fn begin(&mut self, class: &str, case: Value) {
        self.cur_class = class.to_string();
        self.cur_case = case;
    }
    pub fn set_class(&mut self, class: &str) {
        self.cur_class = class.to_string();
    }
    pub fn violation(&mut self, deviation: &str, what: String) {
        let class = self.cur_class.clone();
        self.violation_class(deviation, &class, what)
    }
    pub fn violation_class(&mut self, deviation: &str, class: &str, what: String) {
        let signature = format!("{}/{}/{}", self.cur_monitor, deviation, class);
        let e = self
            .violations
            .entry(signature.clone())
            .or_insert_with(|| Violation {
                monitor: self.cur_monitor.clone(),
                signature,
                what,
                index: self.cur_index,
                case: self.cur_case.clone(),
                count: 0,
            });
        e.count += 1;
    }
    pub fn merge(&mut self, o: Ctx) {
        self.evals += o.evals;
        for (k, v) in o.fingerprints {
            *self.fingerprints.entry(k).or_insert(0) += v;
        }
        self.nontrivial.extend(o.nontrivial);
        for (k, v) in o.counters {
            if k.starts_with("max.") {
                let e = self.counters.entry(k).or_insert(0);
                if v > *e {
                    *e = v;
                }
            } else {
                *self.counters.entry(k).or_insert(0) += v;
            }
        }
        for s in o.samples {
            if self.samples.len() < 6 {
                self.samples.push(s);
            }
        }
        for (k, v) in o.violations {
            match self.violations.get_mut(&k) {
                Some(e) => {
                    e.count += v.count;
                    if v.index < e.index {
                        let c = e.count;
                        *e = v;
                        e.count = c;
                    }
                }
                None => {
                    self.violations.insert(k, v);
                }
            }
        }
        for (k, v) in o.distinct_sets {
            self.distinct_sets.entry(k).or_default().extend(v);
        }
        self.inconclusive.extend(o.inconclusive);
        self.budget_cut |= o.budget_cut;
    }
    /// Declare a coverage floor: if counter `k` < `min`, the run is inconclusive.
    pub fn floor(&mut self, k: &str, min: u64) {
        let have = self.counters.get(k).copied().unwrap_or(0);
        if have < min {
            self.inconclusive
                .push(format!("coverage floor not reached: {}={} < {}", k, have, min));
        }
    }
}

static QUIET_PANICS: AtomicBool = AtomicBool::new(false);
static LAST_PANIC: Mutex<Option<String>> = Mutex::new(None);
thread_local! {
    static TL_PANIC: std::cell::RefCell<Option<String>> = const { std::cell::RefCell::new(None) };
}

pub fn install_panic_hook() {
    let default = std::panic::take_hook();
    std::panic::set_hook(Box::new(move |info| {
        let loc = info
            .location()
            .map(|l| format!("{}:{}", l.file(), l.line()))
            .unwrap_or_default();
        let msg = if let Some(s) = info.payload().downcast_ref::<&str>() {
            s.to_string()
        } else if let Some(s) = info.payload().downcast_ref::<String>() {
            s.clone()
        } else {
            "<non-string panic>".to_string()
        };
        let text = format!("{} @ {}", msg, loc);
        TL_PANIC.with(|p| *p.borrow_mut() = Some(text.clone()));
        *LAST_PANIC.lock().unwrap() = Some(text);
        if !QUIET_PANICS.load(Ordering::Relaxed) {
            default(info);
        }
    }));
    QUIET_PANICS.store(true, Ordering::Relaxed);
}

pub fn take_thread_panic() -> Option<String> {
    TL_PANIC.with(|p| p.borrow_mut().take())
}

/// Where a panic came from, reduced to a stable class: file path relative to the repo and
/// no line number (line numbers move with unrelated edits).
pub fn panic_site(p: &str) -> String {
    let loc = p.rsplit(" @ ").next().unwrap_or("");
    let file = loc.rsplit_once(':').map(|x| x.0).unwrap_or(loc);
    let file = file.trim_start_matches("/repo/");
    file.replace('/', "_")
}

/// Runs `total` cases of `monitor`, strided over `cfg.threads` OS threads.  Case `i` always gets
/// the generator `Rng::for_case(seed, monitor, i)`, independent of the thread count.
pub fn par_cases<S, I, F>(cfg: &RunCfg, monitor: &str, total: u64, init: I, f: F) -> Ctx
where
    I: Fn() -> S + Sync,
    F: Fn(&mut S, &mut Rng, &mut Ctx, u64) + Sync,
{
    let run_one = |st: &mut S, ctx: &mut Ctx, i: u64| {
        let mut rng = Rng::for_case(cfg.seed, monitor, i);
        ctx.cur_index = i;
        ctx.cur_class = "unclassified".into();
        ctx.cur_case = json!({"monitor": monitor, "index": i});
        ctx.evals += 1;
        let _ = take_thread_panic();
        let r = catch_unwind(AssertUnwindSafe(|| f(st, &mut rng, ctx, i)));
        if r.is_err() {
            let p = take_thread_panic().unwrap_or_else(|| "<unknown panic>".into());
            if p.contains("verif-harness-bug") || p.contains("/verif/harness/") {
                // a bug in the harness itself is never a verdict on tonic
                ctx.inconclusive
                    .push(format!("harness panic in {} case {}: {}", monitor, i, p));
            } else {
                let site = panic_site(&p);
                let dev = format!("panic@{}", site);
                ctx.violation(&dev, format!("panic: {}", p));
            }
            return false;
        }
        true
    };

    if let Some((m, idx)) = &cfg.only {
        let mut ctx = Ctx::new();
        ctx.cur_monitor = monitor.to_string();
        if m == monitor {
            let mut st = init();
            run_one(&mut st, &mut ctx, *idx);
        }
        return ctx;
    }

    let threads = cfg.threads.max(1).min(total.max(1) as usize);
    let mut merged = Ctx::new();
    merged.cur_monitor = monitor.to_string();
    let results: Vec<Ctx> = std::thread::scope(|sc| {
        let mut hs = Vec::new();
        for t in 0..threads {
            let run_one = &run_one;
            let init = &init;
            hs.push(
                std::thread::Builder::new()
                    .stack_size(16 << 20)
                    .spawn_scoped(sc, move || {
                        let mut ctx = Ctx::new();
                        ctx.cur_monitor = monitor.to_string();
                        let mut st = init();
                        let mut i = t as u64;
                        while i < total {
                            if cfg.started.elapsed() > cfg.soft_budget {
                                ctx.budget_cut = true;
                                break;
                            }
                            if !run_one(&mut st, &mut ctx, i) {
                                // state may be poisoned after a panic: rebuild
                                st = init();
                            }
                            i += threads as u64;
                        }
                        ctx
                    })
                    .unwrap(),
            );
        }
        hs.into_iter().map(|h| h.join().expect("worker thread")).collect()
    });
    for r in results {
        merged.merge(r);
    }
    merged
}

/// Sequential variant (for monitors that are themselves multi-threaded or exhaustive tables).
pub fn seq_cases<F>(cfg: &RunCfg, monitor: &str, total: u64, f: F) -> Ctx
where
    F: Fn(&mut Rng, &mut Ctx, u64) + Sync,
{
    let mut c = cfg.clone();
    c.threads = 1;
    par_cases(&c, monitor, total, || (), |_, r, ctx, i| f(r, ctx, i))
}

/// Reduced workload sizes for interpreters that are orders of magnitude slower (Miri).
pub fn small() -> bool {
    cfg!(miri) || std::env::var("VERIF_SMALL").is_ok()
}

pub fn short(v: &[u8]) -> String {
    if v.len() <= 24 {
        hex(v)
    } else {
        format!("{}..(len {})", hex(&v[..16]), v.len())
    }
}
pub fn hex(v: &[u8]) -> String {
    let mut s = String::with_capacity(v.len() * 2);
    for b in v {
        s.push_str(&format!("{:02x}", b));
    }
    s
}
pub fn unhex(s: &str) -> Vec<u8> {
    (0..s.len() / 2)
        .map(|i| u8::from_str_radix(&s[2 * i..2 * i + 2], 16).unwrap())
        .collect()
}
