//! Deterministic PRNG (SplitMix64 seeding xoshiro256**).  No external crate so the same
//! generator runs under Miri and in the release harness.

#[derive(Clone, Debug)]
pub struct Rng {
    s: [u64; 4],
}

fn splitmix(x: &mut u64) -> u64 {
    *x = x.wrapping_add(0x9E3779B97F4A7C15);
    let mut z = *x;
    z = (z ^ (z >> 30)).wrapping_mul(0xBF58476D1CE4E5B9);
    z = (z ^ (z >> 27)).wrapping_mul(0x94D049BB133111EB);
    z ^ (z >> 31)
}

pub fn hash_str(s: &str) -> u64 {
    // FNV-1a
    let mut h: u64 = 0xcbf29ce484222325;
    for b in s.bytes() {
        h ^= b as u64;
        h = h.wrapping_mul(0x100000001b3);
    }
    h
}

impl Rng {
    pub fn new(seed: u64) -> Self {
        let mut x = seed;
        let s = [
            splitmix(&mut x),
            splitmix(&mut x),
            splitmix(&mut x),
            splitmix(&mut x),
        ];
        Rng { s }
    }
    /// Generator for case `index` of `monitor` under `seed`.
    pub fn for_case(seed: u64, monitor: &str, index: u64) -> Self {
        let mut x = seed ^ hash_str(monitor).rotate_left(17) ^ index.wrapping_mul(0xD6E8FEB86659FD93);
        let a = splitmix(&mut x);
        Rng::new(a ^ index)
    }
    pub fn u64(&mut self) -> u64 {
        let r = self.s[1].wrapping_mul(5).rotate_left(7).wrapping_mul(9);
        let t = self.s[1] << 17;
        self.s[2] ^= self.s[0];
        self.s[3] ^= self.s[1];
        self.s[1] ^= self.s[2];
        self.s[0] ^= self.s[3];
        self.s[2] ^= t;
        self.s[3] = self.s[3].rotate_left(45);
        r
    }
    /// uniform in 0..n (n>0)
    pub fn below(&mut self, n: u64) -> u64 {
        debug_assert!(n > 0);
        self.u64() % n
    }
    pub fn usize_below(&mut self, n: usize) -> usize {
        self.below(n as u64) as usize
    }
    /// inclusive range
    pub fn range(&mut self, lo: u64, hi: u64) -> u64 {
        lo + self.below(hi - lo + 1)
    }
    pub fn urange(&mut self, lo: usize, hi: usize) -> usize {
        self.range(lo as u64, hi as u64) as usize
    }
    /// true with probability num/den
    pub fn chance(&mut self, num: u64, den: u64) -> bool {
        self.below(den) < num
    }
    pub fn bool(&mut self) -> bool {
        self.u64() & 1 == 1
    }
    pub fn pick<'a, T>(&mut self, xs: &'a [T]) -> &'a T {
        &xs[self.usize_below(xs.len())]
    }
    pub fn bytes(&mut self, n: usize) -> Vec<u8> {
        let mut v = Vec::with_capacity(n);
        while v.len() < n {
            let x = self.u64().to_le_bytes();
            let take = (n - v.len()).min(8);
            v.extend_from_slice(&x[..take]);
        }
        v
    }
    pub fn payload_of(&mut self, sizes: &[usize]) -> Vec<u8> {
        let n = *self.pick(sizes);
        self.payload(n)
    }
    pub fn bytes_range(&mut self, lo: usize, hi: usize) -> Vec<u8> {
        let n = self.urange(lo, hi);
        self.bytes(n)
    }
    pub fn shuffle<T>(&mut self, xs: &mut [T]) {
        for i in (1..xs.len()).rev() {
            let j = self.usize_below(i + 1);
            xs.swap(i, j);
        }
    }
    /// Payload content with a chosen texture: random / zeros / repetitive / ascii.
    pub fn payload(&mut self, n: usize) -> Vec<u8> {
        match self.below(5) {
            0 => vec![0u8; n],
            1 => {
                let pat = self.bytes(1 + self.clone().usize_below(7));
                (0..n).map(|i| pat[i % pat.len()]).collect()
            }
            2 => (0..n).map(|_| b'a' + (self.below(26) as u8)).collect(),
            _ => self.bytes(n),
        }
    }
    /// Arbitrary Unicode string incl. controls, '%', non-ASCII, astral.
    pub fn unicode(&mut self, max_chars: usize) -> String {
        let n = self.usize_below(max_chars + 1);
        let mut s = String::new();
        for _ in 0..n {
            let c = match self.below(12) {
                0 => '%',
                1 => char::from_u32(self.below(0x20) as u32).unwrap(),
                2 => '\u{7f}',
                3 => *self.pick(&[' ', ':', ',', '=', '+', '/', '\\', '"', '\r', '\n', '\t']),
                4 => *self.pick(&['é', 'ß', 'Ω', 'я', '中', '日', '\u{200b}', '\u{feff}', '\u{fffd}']),
                5 => *self.pick(&['😀', '𝄞', '\u{10ffff}', '\u{1f600}']),
                6 => char::from_u32(self.range(0x80, 0x7ff) as u32).unwrap_or('x'),
                7 => {
                    let v = self.range(0x800, 0xffff) as u32;
                    char::from_u32(v).unwrap_or('y')
                }
                _ => (0x20 + self.below(0x5f) as u8) as char,
            };
            s.push(c);
        }
        s
    }
}
