//! Reference oracles written from the gRPC / grpc-web / RFC specs.  Nothing here calls into tonic.
use std::io::Read;

#[derive(Clone, Copy, Debug, PartialEq, Eq, Hash, PartialOrd, Ord)]
pub enum Enc {
    Identity,
    Gzip,
    Deflate,
    Zstd,
}

/// `VERIF_ONLY_ENC=zstd` pins the encoding the codec monitors draw (memcheck leg over the C library).
pub fn forced_enc() -> Option<Enc> {
    std::env::var("VERIF_ONLY_ENC").ok().and_then(|s| Enc::from_name(&s))
}

impl Enc {
    pub fn name(self) -> &'static str {
        match self {
            Enc::Identity => "identity",
            Enc::Gzip => "gzip",
            Enc::Deflate => "deflate",
            Enc::Zstd => "zstd",
        }
    }
    pub fn all() -> &'static [Enc] {
        #[cfg(feature = "full")]
        {
            &[Enc::Identity, Enc::Gzip, Enc::Deflate, Enc::Zstd]
        }
        #[cfg(not(feature = "full"))]
        {
            &[Enc::Identity, Enc::Gzip, Enc::Deflate]
        }
    }
    pub fn compressed() -> &'static [Enc] {
        &Self::all()[1..]
    }
    pub fn from_name(s: &str) -> Option<Enc> {
        match s {
            "identity" => Some(Enc::Identity),
            "gzip" => Some(Enc::Gzip),
            "deflate" => Some(Enc::Deflate),
            "zstd" => Some(Enc::Zstd),
            _ => None,
        }
    }
    pub fn tonic(self) -> Option<tonic::codec::CompressionEncoding> {
        use tonic::codec::CompressionEncoding as C;
        match self {
            Enc::Identity => None,
            Enc::Gzip => Some(C::Gzip),
            Enc::Deflate => Some(C::Deflate),
            #[cfg(feature = "full")]
            Enc::Zstd => Some(C::Zstd),
            #[cfg(not(feature = "full"))]
            Enc::Zstd => panic!("verif-harness-bug: zstd not built"),
        }
    }
}

/// Independent decompression: calls flate2 / zstd directly (not through tonic).
pub fn ref_decompress(enc: Enc, data: &[u8]) -> Result<Vec<u8>, String> {
    let mut out = Vec::new();
    match enc {
        Enc::Identity => out.extend_from_slice(data),
        Enc::Gzip => {
            let mut d = flate2::read::MultiGzDecoder::new(data);
            d.read_to_end(&mut out).map_err(|e| e.to_string())?;
        }
        Enc::Deflate => {
            // gRPC "deflate" is the zlib format (RFC 1950)
            let mut d = flate2::read::ZlibDecoder::new(data);
            d.read_to_end(&mut out).map_err(|e| e.to_string())?;
            if d.total_in() as usize != data.len() {
                return Err("trailing bytes after zlib stream".into());
            }
        }
        Enc::Zstd => {
            #[cfg(feature = "full")]
            {
                out = zstd::stream::decode_all(data).map_err(|e| e.to_string())?;
            }
            #[cfg(not(feature = "full"))]
            return Err("zstd not built".into());
        }
    }
    Ok(out)
}

/// Independent compression (used to build hostile/valid inputs for the decoder side).
pub fn ref_compress(enc: Enc, data: &[u8]) -> Vec<u8> {
    use std::io::Write;
    match enc {
        Enc::Identity => data.to_vec(),
        Enc::Gzip => {
            let mut e = flate2::write::GzEncoder::new(Vec::new(), flate2::Compression::new(3));
            e.write_all(data).unwrap();
            e.finish().unwrap()
        }
        Enc::Deflate => {
            let mut e = flate2::write::ZlibEncoder::new(Vec::new(), flate2::Compression::new(3));
            e.write_all(data).unwrap();
            e.finish().unwrap()
        }
        Enc::Zstd => {
            #[cfg(feature = "full")]
            {
                zstd::stream::encode_all(data, 1).unwrap()
            }
            #[cfg(not(feature = "full"))]
            panic!("verif-harness-bug: zstd not built")
        }
    }
}

pub fn ref_frame(flag: u8, payload: &[u8]) -> Vec<u8> {
    let mut v = Vec::with_capacity(5 + payload.len());
    v.push(flag);
    v.extend_from_slice(&(payload.len() as u32).to_be_bytes());
    v.extend_from_slice(payload);
    v
}

#[derive(Clone, Debug, PartialEq)]
pub struct RefFrame {
    pub flag: u8,
    pub start: usize,
    pub payload: Vec<u8>,
}

#[derive(Clone, Debug, PartialEq)]
pub enum Tail {
    /// input ended exactly on a frame boundary
    Clean,
    /// input ended inside a prefix (k bytes of it present)
    InPrefix(usize),
    /// input ended inside a payload: declared len, bytes present
    InPayload { flag: u8, declared: usize, have: usize },
}

/// Parse as many complete length-prefixed messages as the bytes contain (any flag value is
/// reported as-is; judging flags is the caller's business).
pub fn ref_parse(bytes: &[u8]) -> (Vec<RefFrame>, Tail) {
    let mut frames = Vec::new();
    let mut p = 0;
    loop {
        let rem = bytes.len() - p;
        if rem == 0 {
            return (frames, Tail::Clean);
        }
        if rem < 5 {
            return (frames, Tail::InPrefix(rem));
        }
        let flag = bytes[p];
        let len = u32::from_be_bytes([bytes[p + 1], bytes[p + 2], bytes[p + 3], bytes[p + 4]]) as usize;
        if rem - 5 < len {
            return (
                frames,
                Tail::InPayload {
                    flag,
                    declared: len,
                    have: rem - 5,
                },
            );
        }
        frames.push(RefFrame {
            flag,
            start: p,
            payload: bytes[p + 5..p + 5 + len].to_vec(),
        });
        p += 5 + len;
    }
}

// ---------------------------------------------------------------- protobuf (harness Msg)

/// Independent encoding of `Msg {1: bytes data, 2: uint64 seq, 3: string tag}` (proto3: default
/// values omitted, fields in tag order — what any canonical encoder emits).
pub fn ref_pb_encode(data: &[u8], seq: u64, tag: &str) -> Vec<u8> {
    let mut v = Vec::new();
    if !data.is_empty() {
        v.push(0x0a);
        put_varint(&mut v, data.len() as u64);
        v.extend_from_slice(data);
    }
    if seq != 0 {
        v.push(0x10);
        put_varint(&mut v, seq);
    }
    if !tag.is_empty() {
        v.push(0x1a);
        put_varint(&mut v, tag.len() as u64);
        v.extend_from_slice(tag.as_bytes());
    }
    v
}

pub fn put_varint(v: &mut Vec<u8>, mut x: u64) {
    while x >= 0x80 {
        v.push((x as u8) | 0x80);
        x >>= 7;
    }
    v.push(x as u8);
}

pub fn get_varint(b: &[u8], p: &mut usize) -> Option<u64> {
    let mut x: u64 = 0;
    let mut shift = 0;
    loop {
        let byte = *b.get(*p)?;
        *p += 1;
        if shift >= 64 {
            return None;
        }
        x |= ((byte & 0x7f) as u64) << shift;
        if byte & 0x80 == 0 {
            return Some(x);
        }
        shift += 7;
    }
}

#[derive(Clone, Debug, PartialEq)]
pub enum PbVal {
    Varint(u64),
    Bytes(Vec<u8>),
    F64(u64),
    F32(u32),
}

/// Generic protobuf wire parser: list of (field number, value).  None when malformed.
pub fn pb_parse(b: &[u8]) -> Option<Vec<(u32, PbVal)>> {
    let mut out = Vec::new();
    let mut p = 0;
    while p < b.len() {
        let key = get_varint(b, &mut p)?;
        let field = (key >> 3) as u32;
        if field == 0 {
            return None;
        }
        match key & 7 {
            0 => out.push((field, PbVal::Varint(get_varint(b, &mut p)?))),
            1 => {
                if p + 8 > b.len() {
                    return None;
                }
                out.push((field, PbVal::F64(u64::from_le_bytes(b[p..p + 8].try_into().unwrap()))));
                p += 8;
            }
            2 => {
                let len = get_varint(b, &mut p)? as usize;
                if p.checked_add(len)? > b.len() {
                    return None;
                }
                out.push((field, PbVal::Bytes(b[p..p + len].to_vec())));
                p += len;
            }
            5 => {
                if p + 4 > b.len() {
                    return None;
                }
                out.push((field, PbVal::F32(u32::from_le_bytes(b[p..p + 4].try_into().unwrap()))));
                p += 4;
            }
            _ => return None,
        }
    }
    Some(out)
}

/// Parse a harness Msg with the generic parser (last value wins, as proto3 says).
pub fn ref_pb_decode_msg(b: &[u8]) -> Option<(Vec<u8>, u64, String)> {
    let fields = pb_parse(b)?;
    let mut data = Vec::new();
    let mut seq = 0;
    let mut tag = String::new();
    for (f, v) in fields {
        match (f, v) {
            (1, PbVal::Bytes(x)) => data = x,
            (2, PbVal::Varint(x)) => seq = x,
            (3, PbVal::Bytes(x)) => tag = String::from_utf8(x).ok()?,
            (1..=3, _) => return None,
            _ => {}
        }
    }
    Some((data, seq, tag))
}

// ---------------------------------------------------------------- RFC 4648 base64

const B64: &[u8; 64] = b"ABCDEFGHIJKLMNOPQRSTUVWXYZabcdefghijklmnopqrstuvwxyz0123456789+/";

pub fn b64_encode(data: &[u8], pad: bool) -> String {
    let mut s = String::new();
    for c in data.chunks(3) {
        let n = match c.len() {
            3 => (c[0] as u32) << 16 | (c[1] as u32) << 8 | c[2] as u32,
            2 => (c[0] as u32) << 16 | (c[1] as u32) << 8,
            _ => (c[0] as u32) << 16,
        };
        s.push(B64[(n >> 18) as usize & 63] as char);
        s.push(B64[(n >> 12) as usize & 63] as char);
        if c.len() > 1 {
            s.push(B64[(n >> 6) as usize & 63] as char);
        } else if pad {
            s.push('=');
        }
        if c.len() > 2 {
            s.push(B64[n as usize & 63] as char);
        } else if pad {
            s.push('=');
        }
    }
    s
}

/// Strict-alphabet decoder, padding optional (both forms accepted), rejects anything else.
pub fn b64_decode(s: &[u8]) -> Option<Vec<u8>> {
    let mut body = s;
    while let Some((&b'=', rest)) = body.split_last() {
        body = rest;
        if s.len() - body.len() > 2 {
            return None;
        }
    }
    if body.len() % 4 == 1 {
        return None;
    }
    let mut out = Vec::with_capacity(body.len() * 3 / 4);
    let mut acc: u32 = 0;
    let mut bits = 0;
    for &c in body {
        let v = match c {
            b'A'..=b'Z' => c - b'A',
            b'a'..=b'z' => c - b'a' + 26,
            b'0'..=b'9' => c - b'0' + 52,
            b'+' => 62,
            b'/' => 63,
            _ => return None,
        } as u32;
        acc = (acc << 6) | v;
        bits += 6;
        if bits >= 8 {
            bits -= 8;
            out.push((acc >> bits) as u8);
            acc &= (1 << bits) - 1;
        }
    }
    Some(out)
}

/// True if the final quantum's unused bits are zero (canonical encoding).
pub fn b64_is_canonical_unpadded(s: &[u8]) -> bool {
    if s.contains(&b'=') {
        return false;
    }
    match b64_decode(s) {
        Some(d) => b64_encode(&d, false).as_bytes() == s,
        None => false,
    }
}

/// Well-formed base64 as a peer must accept it: canonical, either unpadded or correctly padded.
pub fn b64_is_wellformed(s: &[u8]) -> bool {
    let pads = s.iter().rev().take_while(|c| **c == b'=').count();
    let body = &s[..s.len() - pads];
    if pads > 0 && (pads > 2 || (body.len() + pads) % 4 != 0) {
        return false;
    }
    b64_is_canonical_unpadded(body)
}

// ---------------------------------------------------------------- gRPC Percent-Encoded (grpc-message)

/// Spec: Percent-Byte-Unencoded = 1*( %x20-%x24 / %x26-%x7E ).  Everything else must be %XX.
pub fn is_valid_percent_encoded(v: &[u8]) -> bool {
    let mut i = 0;
    while i < v.len() {
        let c = v[i];
        if c == b'%' {
            if i + 2 >= v.len() {
                return false;
            }
            if !(v[i + 1].is_ascii_hexdigit() && v[i + 2].is_ascii_hexdigit()) {
                return false;
            }
            i += 3;
        } else if (0x20..=0x7e).contains(&c) {
            i += 1;
        } else {
            return false;
        }
    }
    true
}

pub fn percent_decode(v: &[u8]) -> Vec<u8> {
    let mut out = Vec::with_capacity(v.len());
    let mut i = 0;
    while i < v.len() {
        if v[i] == b'%' && i + 2 < v.len() {
            let h = (v[i + 1] as char).to_digit(16);
            let l = (v[i + 2] as char).to_digit(16);
            if let (Some(h), Some(l)) = (h, l) {
                out.push((h * 16 + l) as u8);
                i += 3;
                continue;
            }
        }
        out.push(v[i]);
        i += 1;
    }
    out
}

/// RFC 9110 field-value: VCHAR / SP / HTAB / obs-text, no leading/trailing whitespace required
/// by the http crate; we check the strict part: no CTLs except HTAB, no DEL.
pub fn is_legal_header_value(v: &[u8]) -> bool {
    v.iter().all(|&b| b == b'\t' || (b >= 0x20 && b != 0x7f))
}

// ---------------------------------------------------------------- header multimap

pub type MultiMap = std::collections::BTreeMap<String, Vec<Vec<u8>>>;

pub fn headers_to_multimap(h: &http::HeaderMap) -> MultiMap {
    let mut m = MultiMap::new();
    for (k, v) in h.iter() {
        m.entry(k.as_str().to_string())
            .or_default()
            .push(v.as_bytes().to_vec());
    }
    m
}

// ---------------------------------------------------------------- grpc-web

/// Independent grpc-web trailers frame encoder: `name:value\r\n` per pair.
pub fn web_trailers_block(pairs: &[(String, Vec<u8>)]) -> Vec<u8> {
    let mut v = Vec::new();
    for (k, val) in pairs {
        v.extend_from_slice(k.as_bytes());
        v.push(b':');
        v.extend_from_slice(val);
        v.extend_from_slice(b"\r\n");
    }
    v
}

/// Independent grpc-web trailers block parser (HTTP/1 header block: split at first ':',
/// optional whitespace trimmed).
pub fn web_parse_trailers(block: &[u8]) -> Option<Vec<(String, Vec<u8>)>> {
    let mut out = Vec::new();
    let mut rest = block;
    while !rest.is_empty() {
        let end = rest.windows(2).position(|w| w == b"\r\n")?;
        let line = &rest[..end];
        rest = &rest[end + 2..];
        if line.is_empty() {
            continue;
        }
        let colon = line.iter().position(|&b| b == b':')?;
        let name = std::str::from_utf8(&line[..colon]).ok()?.trim().to_ascii_lowercase();
        let mut val = &line[colon + 1..];
        while let Some((b' ' | b'\t', r)) = val.split_first().map(|(a, b)| (*a, b)) {
            val = r;
        }
        while let Some((b' ' | b'\t', r)) = val.split_last().map(|(a, b)| (*a, b)) {
            val = r;
        }
        out.push((name, val.to_vec()));
    }
    Some(out)
}
