//! C10 — requests reach exactly the method named by the path, else UNIMPLEMENTED.
use crate::ctx::*;
use crate::exec::{Exec, Out};
use crate::pb::routing::*;
use crate::pb::Msg;
use crate::prng::Rng;
use crate::refc::*;
use bytes::Bytes;
use http_body::Body;
use serde_json::json;
use std::sync::{Arc, Mutex};
use tonic::service::interceptor::InterceptedService;
use tonic::service::{Routes, RoutesBuilder};
use tonic::{Request, Response, Status};
use tower_service::Service;

#[derive(Clone)]
pub struct H {
    pub log: Arc<Mutex<Vec<String>>>,
}

macro_rules! impl_svc {
    ($tr:path, $name:literal, [$(($f:ident, $route:literal)),*]) => {
        #[tonic::async_trait]
        impl $tr for H {
            $(async fn $f(&self, _r: Request<Msg>) -> Result<Response<Msg>, Status> {
                let id = format!("/{}/{}", $name, $route);
                self.log.lock().unwrap().push(id.clone());
                Ok(Response::new(Msg { data: vec![], seq: 0, tag: id }))
            })*
        }
    };
}
impl_svc!(r0::s_server::S, "a.S", [(h0, "M"), (h1, "Mx"), (h2, "m")]);
impl_svc!(r1::sx_server::Sx, "a.Sx", [(h0, "M")]);
impl_svc!(r2::s_server::s, "a.s", [(h0, "M")]);
impl_svc!(r3::s_server::S, "S", [(h0, "M"), (h1, "MM")]);
impl_svc!(r4::s_server::S, "a.b.S", [(h0, "M")]);
impl_svc!(r5::s_server::S, "aa.S", [(h0, "M")]);
impl_svc!(r6::s_s_server::SS, "a.SS", [(h0, "M")]);
impl_svc!(r7::a_server::a, "a", [(h0, "S")]);
impl_svc!(r8::m_server::M, "a.S.M", [(h0, "M")]);
impl_svc!(r9::s_server::S, "b.S", [(h0, "M"), (h1, "N")]);
impl_svc!(r10::a_s_server::aS, "aS", [(h0, "M")]);
impl_svc!(r11::s_server::S, "A.S", [(h0, "M")]);

pub const REGISTRY: &[(&str, &[&str])] = &[
    ("a.S", &["M", "Mx", "m"]),
    ("a.Sx", &["M"]),
    ("a.s", &["M"]),
    ("S", &["M", "MM"]),
    ("a.b.S", &["M"]),
    ("aa.S", &["M"]),
    ("a.SS", &["M"]),
    ("a", &["S"]),
    ("a.S.M", &["M"]),
    ("b.S", &["M", "N"]),
    ("aS", &["M"]),
    ("A.S", &["M"]),
];

fn ident(r: Request<()>) -> Result<Request<()>, Status> {
    Ok(r)
}

/// An interceptor that hands on a request it built itself (metadata copied over), as one that
/// "sanitises" requests does; where the call goes is not the interceptor's to change.
fn rebuild(r: Request<()>) -> Result<Request<()>, Status> {
    let mut n = Request::new(());
    *n.metadata_mut() = r.metadata().clone();
    Ok(n)
}

/// Add service `i` to `routes` (optionally behind an identity interceptor).
pub fn add(routes: Routes, i: usize, h: H, wrap: bool) -> Routes {
    macro_rules! go {
        ($ctor:expr) => {{
            if wrap {
                let f = if i % 2 == 0 { ident } else { rebuild };
                routes.add_service(InterceptedService::new($ctor, f as fn(Request<()>) -> Result<Request<()>, Status>))
            } else {
                routes.add_service($ctor)
            }
        }};
    }
    match i {
        0 => go!(r0::s_server::SServer::new(h)),
        1 => go!(r1::sx_server::SxServer::new(h)),
        2 => go!(r2::s_server::sServer::new(h)),
        3 => go!(r3::s_server::SServer::new(h)),
        4 => go!(r4::s_server::SServer::new(h)),
        5 => go!(r5::s_server::SServer::new(h)),
        6 => go!(r6::s_s_server::SSServer::new(h)),
        7 => go!(r7::a_server::aServer::new(h)),
        8 => go!(r8::m_server::MServer::new(h)),
        9 => go!(r9::s_server::SServer::new(h)),
        10 => go!(r10::a_s_server::aSServer::new(h)),
        11 => go!(r11::s_server::SServer::new(h)),
        _ => unreachable!(),
    }
}

fn add_builder(b: &mut RoutesBuilder, i: usize, h: H) {
    match i {
        0 => { b.add_service(r0::s_server::SServer::new(h)); }
        1 => { b.add_service(r1::sx_server::SxServer::new(h)); }
        2 => { b.add_service(r2::s_server::sServer::new(h)); }
        3 => { b.add_service(r3::s_server::SServer::new(h)); }
        4 => { b.add_service(r4::s_server::SServer::new(h)); }
        5 => { b.add_service(r5::s_server::SServer::new(h)); }
        6 => { b.add_service(r6::s_s_server::SSServer::new(h)); }
        7 => { b.add_service(r7::a_server::aServer::new(h)); }
        8 => { b.add_service(r8::m_server::MServer::new(h)); }
        9 => { b.add_service(r9::s_server::SServer::new(h)); }
        10 => { b.add_service(r10::a_s_server::aSServer::new(h)); }
        11 => { b.add_service(r11::s_server::SServer::new(h)); }
        _ => unreachable!(),
    }
}

/// construction style: 0 = Routes::default().add_service..., 1 = RoutesBuilder, 2 = Routes::new(first).add_service...,
/// 3 = Routes::builder() with some services wrapped by an interceptor via path 0
pub fn build_routes(order: &[usize], style: u64, wrap_mask: u32, h: &H) -> Routes {
    let r = build_routes_plain(order, style & 7, wrap_mask, h);
    match style >> 3 {
        // the conversions tonic offers for mixing with axum and for continuing to build
        1 => Routes::from(r.into_axum_router()).prepare(),
        2 => RoutesBuilder::from(r).routes().prepare(),
        3 => RoutesBuilder::from(r.into_axum_router()).routes().prepare(),
        _ => r,
    }
}

fn build_routes_plain(order: &[usize], style: u64, wrap_mask: u32, h: &H) -> Routes {
    match style {
        1 => {
            let mut b = Routes::builder();
            for &i in order {
                add_builder(&mut b, i, h.clone());
            }
            b.routes().prepare()
        }
        2 if !order.is_empty() => {
            // Routes::new takes the first service
            let first = order[0];
            let mut r = match first {
                0 => Routes::new(r0::s_server::SServer::new(h.clone())),
                1 => Routes::new(r1::sx_server::SxServer::new(h.clone())),
                2 => Routes::new(r2::s_server::sServer::new(h.clone())),
                3 => Routes::new(r3::s_server::SServer::new(h.clone())),
                4 => Routes::new(r4::s_server::SServer::new(h.clone())),
                5 => Routes::new(r5::s_server::SServer::new(h.clone())),
                6 => Routes::new(r6::s_s_server::SSServer::new(h.clone())),
                7 => Routes::new(r7::a_server::aServer::new(h.clone())),
                8 => Routes::new(r8::m_server::MServer::new(h.clone())),
                9 => Routes::new(r9::s_server::SServer::new(h.clone())),
                10 => Routes::new(r10::a_s_server::aSServer::new(h.clone())),
                _ => Routes::new(r11::s_server::SServer::new(h.clone())),
            };
            for &i in &order[1..] {
                r = add(r, i, h.clone(), wrap_mask & (1 << i) != 0);
            }
            r.prepare()
        }
        _ => {
            let mut r = Routes::default();
            for &i in order {
                r = add(r, i, h.clone(), wrap_mask & (1 << i) != 0);
            }
            r.prepare()
        }
    }
}

pub fn gen_path(rng: &mut Rng) -> (String, &'static str) {
    let (svc, methods) = *rng.pick(REGISTRY);
    let m = *rng.pick(methods);
    let exact = format!("/{}/{}", svc, m);
    let flip = |s: &str, rng: &mut Rng| -> String {
        let idx: Vec<usize> = s.char_indices().filter(|(_, c)| c.is_ascii_alphabetic()).map(|(i, _)| i).collect();
        if idx.is_empty() {
            return s.to_string();
        }
        let i = idx[rng.usize_below(idx.len())];
        let mut b = s.as_bytes().to_vec();
        b[i] ^= 0x20;
        String::from_utf8(b).unwrap()
    };
    match rng.below(20) {
        0..=5 => (exact, "exact"),
        6 => (format!("{}x", exact), "method-extended"),
        7 => (exact[..exact.len() - 1].to_string(), "method-truncated"),
        8 => (flip(&exact, rng), "case-flip"),
        9 => (format!("{}/", exact), "trailing-slash"),
        10 => (format!("{}/x", exact), "extra-segment"),
        11 => (format!("/{}//{}", svc, m), "empty-segment"),
        12 => (format!("/{}/x/{}", svc, m), "middle-segment"),
        13 => (format!("/{}", exact), "leading-double-slash"),
        14 => {
            // percent-encode one letter of the method or of the service
            let target = if rng.bool() { m } else { svc };
            let i = rng.usize_below(target.len());
            let enc = format!("{}%{:02X}{}", &target[..i], target.as_bytes()[i], &target[i + 1..]);
            if target == m { (format!("/{}/{}", svc, enc), "percent-method") } else { (format!("/{}/{}", enc, m), "percent-service") }
        }
        15 => (format!("{}?x=1", exact), "query"),
        16 => {
            // method of another service
            let (_, ms2) = *rng.pick(REGISTRY);
            (format!("/{}/{}", svc, rng.pick(ms2)), "cross-method")
        }
        17 => {
            let p = *rng.pick(&["/", "", "/a", "/a.S", "/a.S/", "/a.", "/.S/M", "/a.S.M", "/S", "//", "/a.S/M/M", "/a.Sx/Mx", "/a.b/S/M", "/a/b.S/M", "/a/S/M"]);
            (p.to_string(), "fixed-odd")
        }
        18 => (format!("/{}x/{}", svc, m), "service-extended"),
        _ => {
            let look = exact.replace('S', "Ѕ").replace('a', "а"); // Cyrillic look-alikes, percent-encoded by Uri rules below
            (look, "lookalike")
        }
    }
}

pub struct Outcome {
    pub handlers: Vec<String>,
    pub http_status: u16,
    pub grpc_status: Option<String>,
    pub content_type: Option<String>,
    pub reply_tag: Option<String>,
}

pub fn call_routes(routes: &mut Routes, h: &H, uri: &http::Uri, ex: &mut Exec) -> Result<Outcome, String> {
    h.log.lock().unwrap().clear();
    let body = http_body_util::Full::new(Bytes::from(ref_frame(0, &ref_pb_encode(b"q", 1, ""))));
    let mut req = http::Request::new(body);
    *req.method_mut() = http::Method::POST;
    *req.version_mut() = http::Version::HTTP_2;
    *req.uri_mut() = uri.clone();
    // the subtype suffix a peer may use; routing is by path alone (chosen from the path so that
    // both registration orders see the same request)
    let ct = match uri.path().bytes().fold(7u32, |a, b| a.wrapping_mul(31).wrapping_add(b as u32)) % 8 {
        0 | 1 => "application/grpc+proto",
        2 => "application/grpc+json",
        _ => "application/grpc",
    };
    req.headers_mut().insert("content-type", ct.parse().unwrap());
    req.headers_mut().insert("te", "trailers".parse().unwrap());
    match ex.drive(8, |cx| Service::<http::Request<http_body_util::Full<Bytes>>>::poll_ready(routes, cx)) {
        Out::Done(Ok(())) => {}
        _ => return Err("poll_ready".into()),
    }
    let fut = routes.call(req);
    let resp = match ex.block_on(256, fut) {
        Out::Done(Ok(r)) => r,
        Out::Done(Err(_)) => return Err("infallible?".into()),
        Out::Stalled => return Err("response future stalled".into()),
        Out::Budget => return Err("response future budget".into()),
    };
    let (parts, body) = resp.into_parts();
    let mut body = Box::pin(body);
    let mut data = Vec::new();
    let mut grpc_status = parts.headers.get("grpc-status").map(|v| String::from_utf8_lossy(v.as_bytes()).to_string());
    for _ in 0..16 {
        match ex.drive(64, |cx| body.as_mut().poll_frame(cx)) {
            Out::Done(Some(Ok(f))) => {
                if f.is_data() {
                    data.extend_from_slice(&f.into_data().unwrap());
                } else if let Ok(t) = f.into_trailers() {
                    if let Some(v) = t.get("grpc-status") {
                        if grpc_status.is_some() {
                            return Err("grpc-status in both headers and trailers".into());
                        }
                        grpc_status = Some(String::from_utf8_lossy(v.as_bytes()).to_string());
                    }
                }
            }
            Out::Done(Some(Err(e))) => return Err(format!("body error {:?}", e.code())),
            Out::Done(None) => break,
            _ => return Err("body stalled".into()),
        }
    }
    let reply_tag = ref_parse(&data).0.first().and_then(|f| ref_pb_decode_msg(&f.payload)).map(|m| m.2);
    Ok(Outcome {
        handlers: h.log.lock().unwrap().clone(),
        http_status: parts.status.as_u16(),
        grpc_status,
        content_type: parts.headers.get("content-type").map(|v| String::from_utf8_lossy(v.as_bytes()).to_string()),
        reply_tag,
    })
}

pub fn judge(ctx: &mut Ctx, path_of_uri: &str, registered: &[usize], o: &Outcome, what: &str) {
    let target: Option<String> = registered
        .iter()
        .flat_map(|&i| REGISTRY[i].1.iter().map(move |m| format!("/{}/{}", REGISTRY[i].0, m)))
        .find(|p| p == path_of_uri);
    match target {
        Some(t) => {
            if o.handlers != vec![t.clone()] {
                ctx.violation("exact-path-misrouted", format!("{}: path {:?} should run exactly handler {}, ran {:?}", what, path_of_uri, t, o.handlers));
            } else if o.grpc_status.as_deref() != Some("0") || o.reply_tag.as_deref() != Some(t.as_str()) {
                ctx.violation("exact-path-bad-reply", format!("{}: path {:?} reply status {:?} tag {:?}", what, path_of_uri, o.grpc_status, o.reply_tag));
            }
        }
        None => {
            if !o.handlers.is_empty() {
                ctx.violation("handler-reached", format!("{}: path {:?} names no registered method but reached handler(s) {:?}", what, path_of_uri, o.handlers));
            }
            if o.grpc_status.as_deref() != Some("12") {
                ctx.violation("not-unimplemented", format!("{}: path {:?} answered with HTTP {} grpc-status {:?} (want grpc-status 12)", what, path_of_uri, o.http_status, o.grpc_status));
            } else if o.http_status != 200 {
                ctx.violation("unimplemented-http-status", format!("{}: HTTP {}", what, o.http_status));
            }
        }
    }
}

pub fn run(cfg: &RunCfg) -> Ctx {
    let mut all = Ctx::new();
    all.merge(par_cases(cfg, "routes", cfg.n(12_000, 16 * 500_000), || (), |_, rng, ctx, _| case(rng, ctx)));
    all.merge(par_cases(cfg, "h2", cfg.n(120, 16 * 4000), || (), |_, rng, ctx, _| h2_case(rng, ctx)));
    all.floor("h2.calls", 100);
    all.floor("h2.handler_runs", 10);
    all.floor("h2.unimplemented", 10);
    for k in ["path.exact", "path.case-flip", "path.method-extended", "path.service-extended", "path.extra-segment", "path.empty-segment", "path.middle-segment", "path.trailing-slash", "path.percent-method", "path.cross-method", "path.query",
        "style.0", "style.1", "style.2", "style.converted", "observed.handler_runs", "observed.unimplemented"] {
        all.floor(k, 5);
    }
    all
}

fn case(rng: &mut Rng, ctx: &mut Ctx) {
    // registered subset + two orders
    let n = rng.urange(0, 6).min(REGISTRY.len());
    let mut idx: Vec<usize> = (0..REGISTRY.len()).collect();
    rng.shuffle(&mut idx);
    let order1: Vec<usize> = idx[..n].to_vec();
    let mut order2 = order1.clone();
    rng.shuffle(&mut order2);
    let style1 = rng.below(3) | if rng.chance(1, 3) { rng.urange(1, 3) as u64 * 8 } else { 0 };
    let style2 = rng.below(3) | if rng.chance(1, 3) { rng.urange(1, 3) as u64 * 8 } else { 0 };
    let wrap = rng.u64() as u32;
    let h1 = H { log: Arc::new(Mutex::new(Vec::new())) };
    let h2 = H { log: Arc::new(Mutex::new(Vec::new())) };
    ctx.begin("setup", json!({"order": order1, "style": style1}));
    let mut r1 = build_routes(&order1, style1, wrap, &h1);
    let mut r2 = build_routes(&order2, style2, !wrap, &h2);
    ctx.count(&format!("style.{}", style1 & 7));
    if style1 >> 3 != 0 {
        ctx.count("style.converted");
    }
    let mut ex = Exec::new();
    let k = 8;
    for _ in 0..k {
        let (p, class) = gen_path(rng);
        // bias towards registered services so exact hits happen
        let p = if class == "exact" && !order1.is_empty() && rng.bool() {
            let i = *rng.pick(&order1);
            format!("/{}/{}", REGISTRY[i].0, rng.pick(REGISTRY[i].1))
        } else {
            p
        };
        let uri: http::Uri = match p.parse() {
            Ok(u) => u,
            Err(_) => {
                // not expressible as a URI (e.g. raw non-ASCII): percent-encode non-ASCII bytes
                let enc: String = p.bytes().map(|b| if b.is_ascii() { (b as char).to_string() } else { format!("%{:02X}", b) }).collect();
                match enc.parse() {
                    Ok(u) => u,
                    Err(_) => continue,
                }
            }
        };
        let path = uri.path().to_string();
        let case_json = json!({"registered": order1.iter().map(|&i| REGISTRY[i].0).collect::<Vec<_>>(), "order2": order2.iter().map(|&i| REGISTRY[i].0).collect::<Vec<_>>(),
            "styles": [style1, style2], "wrap_mask": wrap, "uri": uri.to_string(), "class": class});
        ctx.begin(class, case_json.clone());
        ctx.count(&format!("path.{}", class));
        let o1 = match call_routes(&mut r1, &h1, &uri, &mut ex) {
            Ok(o) => o,
            Err(e) => {
                ctx.violation("call-failed", e);
                continue;
            }
        };
        let o2 = match call_routes(&mut r2, &h2, &uri, &mut ex) {
            Ok(o) => o,
            Err(e) => {
                ctx.violation("call-failed", e);
                continue;
            }
        };
        judge(ctx, &path, &order1, &o1, "order A");
        judge(ctx, &path, &order2, &o2, "order B");
        if o1.handlers != o2.handlers || o1.grpc_status != o2.grpc_status {
            ctx.violation("order-dependent", format!("registration order changes the outcome: {:?}/{:?} vs {:?}/{:?}", o1.handlers, o1.grpc_status, o2.handlers, o2.grpc_status));
        }
        if !o1.handlers.is_empty() {
            ctx.count("observed.handler_runs");
        } else if o1.grpc_status.as_deref() == Some("12") {
            ctx.count("observed.unimplemented");
        }
        // a gRPC answer: `application/grpc`, optionally with a `+format` suffix or parameters (the
        // protocol's Content-Type grammar); which of these forms is tonic's choice
        let is_grpc_ct = |c: &str| c.strip_prefix("application/grpc").map(|r| r.is_empty() || r.starts_with('+') || r.starts_with(';')).unwrap_or(false);
        if !o1.content_type.as_deref().map(is_grpc_ct).unwrap_or(false) {
            ctx.violation("content-type", format!("response content-type {:?}", o1.content_type));
        }
        let hit = !o1.handlers.is_empty();
        ctx.fingerprint(format!("{}|n{}|s{}{}|hit{}|{}", class, n, style1, style2, hit as u8, path.len().min(12)), class != "exact" || hit);
        ctx.sample(case_json);
    }
}

fn add_router<L>(r: tonic::transport::server::Router<L>, i: usize, h: H) -> tonic::transport::server::Router<L> {
    match i {
        0 => r.add_service(r0::s_server::SServer::new(h)),
        1 => r.add_service(r1::sx_server::SxServer::new(h)),
        2 => r.add_service(r2::s_server::sServer::new(h)),
        3 => r.add_service(r3::s_server::SServer::new(h)),
        4 => r.add_service(r4::s_server::SServer::new(h)),
        5 => r.add_service(r5::s_server::SServer::new(h)),
        6 => r.add_service(r6::s_s_server::SSServer::new(h)),
        7 => r.add_service(r7::a_server::aServer::new(h)),
        8 => r.add_service(r8::m_server::MServer::new(h)),
        9 => r.add_service(r9::s_server::SServer::new(h)),
        10 => r.add_service(r10::a_s_server::aSServer::new(h)),
        _ => r.add_service(r11::s_server::SServer::new(h)),
    }
}

/// The same oracle through the real transport: `Server::builder()` (add_routes / add_service /
/// add_optional_service(None) first) served over the in-memory pipe, paths sent by
/// `tonic::client::Grpc::unary` with an arbitrary `PathAndQuery`.
fn h2_case(rng: &mut Rng, ctx: &mut Ctx) {
    use crate::transport::*;
    use hyper_util::rt::TokioIo;
    use tokio::sync::mpsc;
    use tonic::transport::{Endpoint, Server};
    let n = rng.urange(0, 5).min(REGISTRY.len());
    let mut idx: Vec<usize> = (0..REGISTRY.len()).collect();
    rng.shuffle(&mut idx);
    let order: Vec<usize> = idx[..n].to_vec();
    let style = rng.below(3) | if rng.chance(1, 3) { rng.urange(1, 3) as u64 * 8 } else { 0 };
    let via = rng.below(3); // 0 add_routes, 1 add_optional_service(None) then add_routes-equivalent, 2 add_service chain of the first + routes
    let wrap = rng.u64() as u32;
    let h = H { log: Arc::new(Mutex::new(Vec::new())) };
    let paths: Vec<(String, &'static str)> = (0..8)
        .map(|_| {
            let (p, class) = gen_path(rng);
            if class == "exact" && !order.is_empty() && rng.bool() {
                let i = *rng.pick(&order);
                (format!("/{}/{}", REGISTRY[i].0, rng.pick(REGISTRY[i].1)), class)
            } else {
                (p, class)
            }
        })
        .collect();
    let case_json = json!({"registered": order.iter().map(|&i| REGISTRY[i].0).collect::<Vec<_>>(), "style": style, "via": via, "paths": paths.iter().map(|p| p.0.clone()).collect::<Vec<_>>()});
    ctx.begin("h2-setup", case_json.clone());
    let pcfg = if rng.bool() { PipeCfg::plain() } else { PipeCfg::gen(rng) };
    let seed = rng.u64();
    let rt = paused_rt();
    let h2c = h.clone();
    let order2 = order.clone();
    let results: Result<Vec<(String, &'static str, Result<String, i32>, Vec<String>)>, String> = rt.block_on(async move {
        let routes = build_routes(&order2, style, wrap, &h2c);
        let (tx, rx) = mpsc::unbounded_channel();
        let router = match via {
            1 => {
                // first registration is an absent optional service, the rest through Router::add_service
                let _ = routes;
                let mut r = Server::builder().add_optional_service(None::<r0::s_server::SServer<H>>);
                for (k, &i) in order2.iter().enumerate() {
                    r = add_router(r, i, h2c.clone());
                    if (wrap >> k) & 1 == 1 {
                        // an absent optional service in the middle / at the end of the chain
                        r = r.add_optional_service(None::<r1::sx_server::SxServer<H>>);
                    }
                }
                r
            }
            _ => Server::builder().add_routes(routes),
        };
        let st = tokio::spawn(async move {
            let _ = router.serve_with_incoming(crate::props::c14::Incoming(rx)).await;
        });
        let connector = tower::service_fn(move |_u: http::Uri| {
            let tx = tx.clone();
            async move {
                let (a, b, _h) = pipe("c10", pcfg, Rng::new(seed), None);
                let _ = tx.send(Ok::<_, std::io::Error>(b));
                Ok::<_, std::io::Error>(TokioIo::new(a))
            }
        });
        let ch = Endpoint::from_static("http://verif.test:50051").connect_with_connector(connector).await.map_err(|e| format!("connect: {}", e))?;
        let mut out = Vec::new();
        for (p, class) in paths {
            let enc: String = p.bytes().map(|b| if b.is_ascii() && b != b' ' { (b as char).to_string() } else { format!("%{:02X}", b) }).collect();
            let Ok(pq) = http::uri::PathAndQuery::try_from(enc.as_str()) else { continue };
            if pq.path().is_empty() {
                continue;
            }
            h2c.log.lock().unwrap().clear();
            let mut grpc = tonic::client::Grpc::new(ch.clone());
            if grpc.ready().await.is_err() {
                return Err("channel not ready".into());
            }
            let path_str = pq.path().to_string();
            let r = tokio::time::timeout(std::time::Duration::from_secs(60), grpc.unary(tonic::Request::new(Msg::default()), pq, tonic::codec::ProstCodec::<Msg, Msg>::default())).await;
            let r = match r {
                Err(_) => return Err(format!("call to {:?} did not resolve within 60 virtual seconds", path_str)),
                Ok(Ok(resp)) => Ok(resp.into_inner().tag),
                Ok(Err(s)) => Err(s.code() as i32),
            };
            let ran = h2c.log.lock().unwrap().clone();
            out.push((path_str, class, r, ran));
        }
        st.abort();
        Ok(out)
    });
    drop(rt);
    let results = match results {
        Ok(r) => r,
        Err(e) => {
            ctx.violation("h2-setup-or-hang", e);
            return;
        }
    };
    for (path, class, r, ran) in results {
        ctx.set_class(class);
        ctx.count("h2.calls");
        let target: Option<String> = order.iter().flat_map(|&i| REGISTRY[i].1.iter().map(move |m| format!("/{}/{}", REGISTRY[i].0, m))).find(|p| *p == path);
        match target {
            Some(t) => {
                ctx.count("h2.handler_runs");
                if ran != vec![t.clone()] || r != Ok(t.clone()) {
                    ctx.violation("exact-path-misrouted", format!("[h2] path {:?} should run exactly {}, ran {:?}, reply {:?}", path, t, ran, r));
                }
            }
            None => {
                if !ran.is_empty() {
                    ctx.violation("handler-reached", format!("[h2] path {:?} names no registered method but reached {:?}", path, ran));
                }
                if r != Err(12) {
                    ctx.violation("not-unimplemented", format!("[h2] path {:?} answered {:?} (want UNIMPLEMENTED)", path, r));
                } else {
                    ctx.count("h2.unimplemented");
                }
            }
        }
        ctx.fingerprint(format!("h2|{}|n{}|s{}|via{}", class, n, style, via), true);
    }
    ctx.sample(case_json);
}
