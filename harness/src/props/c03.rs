//! C03 — requests and responses on the wire are spec-conformant gRPC (independent decoder).
use crate::ctx::*;
use crate::exec::{Exec, Out};
use crate::gen::*;
use crate::pb::verif::{verif_client::VerifClient, verif_server::VerifServer};
use crate::pb::Msg;
use crate::prng::Rng;
use crate::props::c02::{gen_msg, gen_script};
use crate::refc::*;
use crate::svc::*;
use serde_json::{json, Value};
use std::io::Write;
use std::sync::atomic::Ordering::Relaxed;
use std::sync::Mutex;

static WIRELOG: Mutex<Option<std::fs::File>> = Mutex::new(None);
static WIRELOG_LINES: std::sync::atomic::AtomicU64 = std::sync::atomic::AtomicU64::new(0);
const WIRELOG_MAX: u64 = 4000;

fn log_wire(v: &Value) {
    if WIRELOG_LINES.fetch_add(1, Relaxed) >= WIRELOG_MAX {
        return;
    }
    if let Some(f) = WIRELOG.lock().unwrap().as_mut() {
        let _ = writeln!(f, "{}", v);
    }
}

pub fn wirelog_path(seed: u64, tier: &str) -> String {
    format!("{}/wirelogs/C03-{}-s{}.jsonl", std::env::var("VERIF_SCRATCH").unwrap_or_else(|_| "/verif/target".into()), tier, seed)
}

pub fn run(cfg: &RunCfg) -> Ctx {
    if cfg.only.is_none() {
        let p = wirelog_path(cfg.seed, cfg.tier());
        if let Some(d) = std::path::Path::new(&p).parent() {
            let _ = std::fs::create_dir_all(d);
        }
        *WIRELOG.lock().unwrap() = std::fs::File::create(&p).ok();
        WIRELOG_LINES.store(0, Relaxed);
    }
    let mut all = Ctx::new();
    all.merge(par_cases(cfg, "wire", cfg.n(4000, 16 * 120_000), || (), |_, rng, ctx, i| case(rng, ctx, i)));
    all.merge(par_cases(cfg, "layers", cfg.n(100, 16 * 500), || (), |_, rng, ctx, i| layers_case(rng, ctx, i)));
    for k in ["layers.server-timeout", "layers.caller-timeout", "layers.concurrency-limit", "layers.unknown-path", "layers.plain-ok"] {
        all.floor(k, 3);
    }
    *WIRELOG.lock().unwrap() = None;
    all.add("wirelog.records", WIRELOG_LINES.load(Relaxed).min(WIRELOG_MAX));
    for e in Enc::all() {
        all.floor(&format!("req.enc.{}", e.name()), 5);
        all.floor(&format!("resp.enc.{}", e.name()), 5);
    }
    for k in ["outcome.ok", "outcome.handler_error", "outcome.source_error_mid_stream", "outcome.encode_failure", "outcome.client_encode_failure", "req.streaming_body", "req.caller_supplied_grpc_encoding"] {
        all.floor(k, 5);
    }
    all
}

fn hdr_list(h: &http::HeaderMap) -> Vec<Value> {
    h.iter().map(|(k, v)| json!([k.as_str(), hex(v.as_bytes())])).collect()
}

/// Judge one body: frames with flag 0/1, payload decompresses with `enc` iff flag 1 and parses to
/// the expected messages (prefix allowed when the call failed).  Returns deviations.
fn judge_body(body: &[u8], enc: Option<Enc>, expect: &[Msg], prefix_ok: bool) -> Vec<(String, String)> {
    let mut dev = Vec::new();
    let (frames, tail) = ref_parse(body);
    if tail != Tail::Clean {
        dev.push(("body-not-framed".into(), format!("body does not end on a message boundary: {:?}", tail)));
    }
    if frames.len() > expect.len() || (!prefix_ok && frames.len() != expect.len()) {
        dev.push(("message-count".into(), format!("{} messages on the wire, {} produced", frames.len(), expect.len())));
    }
    for (i, f) in frames.iter().enumerate() {
        if f.flag > 1 {
            dev.push(("flag".into(), format!("message {}: flag byte {}", i, f.flag)));
            continue;
        }
        let payload = if f.flag == 1 {
            match enc {
                None => {
                    dev.push(("flag-without-encoding".into(), format!("message {} flagged compressed but no grpc-encoding announced", i)));
                    continue;
                }
                Some(e) => match ref_decompress(e, &f.payload) {
                    Ok(p) => p,
                    Err(err) => {
                        dev.push(("payload-not-announced-encoding".into(), format!("message {} does not decompress with the announced {}: {}", i, e.name(), err)));
                        continue;
                    }
                },
            }
        } else {
            f.payload.clone()
        };
        match (ref_pb_decode_msg(&payload), expect.get(i)) {
            (Some((d, s, t)), Some(m)) => {
                if d != m.data || s != m.seq || t != m.tag {
                    dev.push(("payload-values".into(), format!("message {} does not carry the expected field values", i)));
                }
                // the codec's serialization is canonical proto3
                if payload != ref_pb_encode(&m.data, m.seq, &m.tag) {
                    dev.push(("payload-not-codec-serialization".into(), format!("message {} payload is not the canonical serialization", i)));
                }
            }
            (None, _) => dev.push(("payload-not-protobuf".into(), format!("message {} payload does not parse", i))),
            (_, None) => {}
        }
    }
    dev
}

fn case(rng: &mut Rng, ctx: &mut Ctx, idx: u64) {
    let shape = *rng.pick(&SHAPES);
    let streaming_resp = matches!(shape, Shape::ServerStream | Shape::Bidi);
    // compression configuration on each side
    let c_send: Option<Enc> = if rng.bool() { Some(*rng.pick(Enc::compressed())) } else { None };
    let s_send: Option<Enc> = if rng.bool() { Some(*rng.pick(Enc::compressed())) } else { None };
    // outcome
    let outcome = *rng.pick(&["ok", "ok", "handler_error", "source_error_mid_stream", "encode_failure", "client_encode_failure"]);
    let mut script = gen_script(rng, shape, false);
    script.end = None;
    script.fail_up_front = false;
    let mut server_limit: Option<usize> = None;
    match outcome {
        "handler_error" => {
            script.end = Some(gen_status(rng));
            script.fail_up_front = streaming_resp && rng.bool();
            if !streaming_resp {
                script.msgs.truncate(1);
            }
        }
        "source_error_mid_stream" => {
            script.end = Some(gen_status(rng));
            if streaming_resp && script.msgs.is_empty() {
                script.msgs.push(gen_msg(rng, 0));
            }
            // the error arrives while a message larger than two default yield thresholds (and one
            // HTTP/2 window) is still on its way out
            if streaming_resp && rng.chance(1, 4) {
                let n = script.msgs.len();
                let sz = *rng.pick(&[70_000usize, 140_000]);
                script.msgs.push(Msg { data: rng.payload(sz), seq: 77, tag: "large".into() });
                script.pend.resize(n + 1, 0);
                ctx.count("resp.large_message_then_error");
            }
        }
        "encode_failure" => {
            // one message over the server's encoding limit, possibly after smaller ones
            server_limit = Some(2000);
            let big = Msg { data: rng.bytes(6000), seq: 99, tag: "big".into() };
            if streaming_resp {
                script.msgs.retain(|m| m.data.len() < 1500);
                let at = rng.usize_below(script.msgs.len() + 1);
                script.msgs.insert(at, big);
            } else {
                script.msgs = vec![big];
            }
        }
        _ => {}
    }
    let id = format!("w{}", idx);
    let nreq = if matches!(shape, Shape::ClientStream | Shape::Bidi) { rng.urange(0, 4) } else { 1 };
    let mut req_msgs: Vec<Msg> = (0..nreq).map(|i| gen_msg(rng, i)).collect();
    let mut client_limit: Option<usize> = None;
    if outcome == "client_encode_failure" {
        // a request message over the client's own encoding limit, possibly after smaller ones
        client_limit = Some(2000);
        req_msgs.retain(|m| m.data.len() < 1500);
        let big = Msg { data: rng.bytes(6000), seq: 98, tag: "bigreq".into() };
        if matches!(shape, Shape::ClientStream | Shape::Bidi) {
            let at = rng.usize_below(req_msgs.len() + 1);
            req_msgs.insert(at, big);
        } else {
            req_msgs = vec![big];
        }
    }
    let nreq = req_msgs.len();
    let mut req_meta = gen_meta(rng, 3, false);
    // metadata a caller may have copied over from another call: the announcement on the wire must
    // still be the one that matches how this request's messages are actually written
    if c_send.is_some() && rng.chance(1, 3) {
        let v = *rng.pick(&["identity", "gzip", "deflate", "zstd"]);
        let at = rng.usize_below(req_meta.len() + 1);
        req_meta.insert(at, ("grpc-encoding".to_string(), crate::gen::MVal::Ascii(v.to_string())));
        ctx.count("req.caller_supplied_grpc_encoding");
    }
    let spec = CallSpec { id: id.clone(), shape, req_msgs: req_msgs.clone(), req_meta, req_pend: (0..nreq + 1).map(|_| rng.below(2) as u8).collect(), req_gaps_ms: vec![], timeout: None, pingpong: None };
    let case_json = json!({"shape": format!("{:?}", shape), "client_send": c_send.map(|e| e.name()), "server_send": s_send.map(|e| e.name()), "outcome": outcome,
        "response_msg_sizes": script.msgs.iter().map(|m| m.data.len()).collect::<Vec<_>>(), "request_msgs": nreq, "server_encode_limit": server_limit});
    ctx.begin(&format!("{}-{:?}", outcome, shape), case_json.clone());
    ctx.count(&format!("outcome.{}", outcome));
    ctx.count(&format!("req.enc.{}", c_send.map(|e| e.name()).unwrap_or("identity")));
    if nreq != 1 {
        ctx.count("req.streaming_body");
    }
    let handler = Handler::new();
    handler.set_script(&id, script.clone());
    let mut server = VerifServer::new(handler.clone());
    for e in Enc::compressed() {
        server = server.accept_compressed(e.tonic().unwrap());
    }
    if let Some(e) = s_send {
        server = server.send_compressed(e.tonic().unwrap());
    }
    if let Some(l) = server_limit {
        server = server.max_encoding_message_size(l);
    }
    let mut lb = Loopback::new(server, rng.u64(), *rng.pick(&[7usize, 4096, 1 << 20]));
    lb.probe_after_end = true;
    let (tap, rtap, ttap, qttap, qbtap, rbtap, stats) = (lb.tap.clone(), lb.resp_tap.clone(), lb.trailers_tap.clone(), lb.req_trailers_tap.clone(), lb.req_body_tap.clone(), lb.resp_body_tap.clone(), lb.stats.clone());
    let mut client = VerifClient::new(lb);
    if let Some(e) = c_send {
        client = client.send_compressed(e.tonic().unwrap());
    }
    if let Some(l) = client_limit {
        client = client.max_encoding_message_size(l);
    }
    for e in Enc::compressed() {
        client = client.accept_compressed(e.tonic().unwrap());
    }
    let mut ex = Exec::new();
    let view = match ex.block_on(400_000, do_call(&mut client, &spec, None)) {
        Out::Done(v) => v,
        _ => {
            ctx.violation("hang", "call did not complete".into());
            return;
        }
    };
    let _ = view;
    // ---------------- request on the wire
    let req_parts = tap.lock().unwrap();
    let Some(rp) = req_parts.first() else {
        ctx.violation("no-request", "nothing sent".into());
        return;
    };
    let want_path = match shape {
        Shape::Unary => "/verif.v1.Verif/Unary",
        Shape::ClientStream => "/verif.v1.Verif/ClientStream",
        Shape::ServerStream => "/verif.v1.Verif/ServerStream",
        Shape::Bidi => "/verif.v1.Verif/Bidi",
    };
    if rp.method != http::Method::POST {
        ctx.violation("request-method", format!("{}", rp.method));
    }
    if rp.version != http::Version::HTTP_2 {
        ctx.violation("request-version", format!("{:?}", rp.version));
    }
    if rp.uri.path() != want_path || rp.uri.query().is_some() {
        ctx.violation("request-path", format!("{} (want {})", rp.uri, want_path));
    }
    if rp.headers.get("content-type").map(|v| v.as_bytes()) != Some(b"application/grpc") || rp.headers.get_all("content-type").iter().count() != 1 {
        ctx.violation("request-content-type", format!("{:?}", rp.headers.get("content-type")));
    }
    if rp.headers.get("te").map(|v| v.as_bytes()) != Some(b"trailers") {
        ctx.violation("request-te", format!("{:?}", rp.headers.get("te")));
    }
    let req_enc_hdr = rp.headers.get("grpc-encoding").map(|v| String::from_utf8_lossy(v.as_bytes()).to_string());
    let req_enc = req_enc_hdr.as_deref().and_then(Enc::from_name).filter(|e| *e != Enc::Identity);
    if req_enc_hdr.is_some() && req_enc.is_none() && req_enc_hdr.as_deref() != Some("identity") {
        ctx.violation("request-encoding-unknown", format!("{:?}", req_enc_hdr));
    }
    let req_body = qbtap.lock().unwrap().clone();
    let mut want_req: Vec<Msg> = if matches!(shape, Shape::ClientStream | Shape::Bidi) { req_msgs.clone() } else { vec![req_msgs[0].clone()] };
    if outcome == "client_encode_failure" {
        // the oversized message and everything after it never reach the wire
        let upto = want_req.iter().position(|m| m.tag == "bigreq").unwrap_or(want_req.len());
        want_req.truncate(upto);
    }
    // a server that ends the call without draining a streaming request never pulls the rest of it
    let req_prefix_ok = matches!(shape, Shape::ClientStream | Shape::Bidi) && outcome != "ok";
    for (d, w) in judge_body(&req_body, req_enc, &want_req, req_prefix_ok) {
        ctx.violation(&format!("request-{}", d), w);
    }
    if !qttap.lock().unwrap().is_empty() {
        ctx.violation("request-trailers", "the client request body carried trailers".into());
    }
    if outcome == "client_encode_failure" {
        // the call fails locally; whatever the server answers to the aborted request is not under test
        ctx.fingerprint(format!("wire|{:?}|{}|creq={}|n{}", shape, outcome, c_send.map(|e| e.name()).unwrap_or("-"), nreq.min(2)), true);
        ctx.sample(case_json);
        return;
    }
    // ---------------- response on the wire
    let resp_parts = rtap.lock().unwrap();
    let Some(sp) = resp_parts.first() else {
        ctx.violation("no-response", "no response head".into());
        return;
    };
    if sp.status != http::StatusCode::OK {
        ctx.violation("response-http-status", format!("{}", sp.status));
    }
    if sp.headers.get("content-type").map(|v| v.as_bytes()) != Some(b"application/grpc") {
        ctx.violation("response-content-type", format!("{:?}", sp.headers.get("content-type")));
    }
    let resp_body = rbtap.lock().unwrap().clone();
    let trailers = ttap.lock().unwrap().clone();
    let n_status_hdr = sp.headers.get_all("grpc-status").iter().count();
    let n_status_trl: usize = trailers.iter().map(|t| t.get_all("grpc-status").iter().count()).sum();
    if n_status_hdr + n_status_trl != 1 {
        ctx.violation("grpc-status-count", format!("{} grpc-status in headers, {} in {} trailers block(s)", n_status_hdr, n_status_trl, trailers.len()));
    }
    if n_status_hdr == 1 {
        ctx.count("resp.trailers_only");
        if !resp_body.is_empty() || !trailers.is_empty() {
            ctx.violation("trailers-only-has-body", format!("grpc-status in the headers but {} body bytes and {} trailers blocks follow", resp_body.len(), trailers.len()));
        }
    } else {
        ctx.count("resp.trailers_block");
        if trailers.len() != 1 {
            ctx.violation("trailers-block-count", format!("{} trailers blocks", trailers.len()));
        }
    }
    if stats.after_end_frames.load(Relaxed) > 0 {
        ctx.violation("frames-after-end", format!("{} frame(s) were produced after the trailers / after the end of a body", stats.after_end_frames.load(Relaxed)));
    }
    let resp_enc_hdr = sp.headers.get("grpc-encoding").map(|v| String::from_utf8_lossy(v.as_bytes()).to_string());
    let resp_enc = resp_enc_hdr.as_deref().and_then(Enc::from_name).filter(|e| *e != Enc::Identity);
    ctx.count(&format!("resp.enc.{}", resp_enc.map(|e| e.name()).unwrap_or("identity")));
    // expected response messages
    let (want_resp, prefix_ok): (Vec<Msg>, bool) = match outcome {
        "encode_failure" => {
            let upto = script.msgs.iter().position(|m| m.tag == "big").unwrap_or(0);
            (script.msgs[..upto].to_vec(), false)
        }
        "handler_error" if !streaming_resp || script.fail_up_front => (vec![], false),
        _ => (if streaming_resp { script.msgs.clone() } else { script.msgs.iter().take(1).cloned().collect() }, false),
    };
    let want_resp = if outcome == "source_error_mid_stream" && !streaming_resp { vec![] } else { want_resp };
    for (d, w) in judge_body(&resp_body, resp_enc, &want_resp, prefix_ok) {
        ctx.violation(&format!("response-{}", d), w);
    }
    // final status value
    let status_val = sp.headers.get("grpc-status").or(trailers.first().and_then(|t| t.get("grpc-status"))).map(|v| String::from_utf8_lossy(v.as_bytes()).to_string());
    let want_status = match outcome {
        "ok" => "0".to_string(),
        "encode_failure" => "11".to_string(),
        _ => script.end.as_ref().map(|s| s.code.to_string()).unwrap_or("0".into()),
    };
    if status_val.as_deref() != Some(want_status.as_str()) {
        ctx.violation("final-status", format!("grpc-status {:?}, want {}", status_val, want_status));
    }
    // ---------------- wire log for the independent (Python) judge
    log_wire(&json!({
        "id": id, "shape": format!("{:?}", shape), "outcome": outcome,
        "request": {"method": rp.method.as_str(), "version": format!("{:?}", rp.version), "uri": rp.uri.to_string(), "headers": hdr_list(&rp.headers), "body": hex(&req_body), "trailer_blocks": qttap.lock().unwrap().len(),
            "expect_path": want_path, "prefix_ok": req_prefix_ok, "expect_messages": want_req.iter().map(|m| json!({"data": hex(&m.data), "seq": m.seq, "tag": m.tag})).collect::<Vec<_>>()},
        "response": {"status": sp.status.as_u16(), "headers": hdr_list(&sp.headers), "body": hex(&resp_body), "trailers": trailers.iter().map(hdr_list).collect::<Vec<_>>(), "frames_after_end": stats.after_end_frames.load(Relaxed),
            "prefix_ok": false, "expect_messages": want_resp.iter().map(|m| json!({"data": hex(&m.data), "seq": m.seq, "tag": m.tag})).collect::<Vec<_>>(), "expect_status": want_status},
    }));
    ctx.fingerprint(
        format!("wire|{:?}|{}|creq={}|sresp={}|n{}|k{}", shape, outcome, c_send.map(|e| e.name()).unwrap_or("-"), resp_enc.map(|e| e.name()).unwrap_or("-"), nreq.min(2), want_resp.len().min(2)),
        outcome != "ok" || c_send.is_some() || resp_enc.is_some(),
    );
    ctx.sample(case_json);
}

// ------------------------------------------------------------------ responses produced by the Server's own layers

/// A raw HTTP/2 client (hyper, no tonic) talks to the real `tonic::transport::Server` and provokes
/// the responses that come from the server's layers instead of a handler: an expired configured
/// timeout, an expired caller `grpc-timeout`, queueing under a per-connection concurrency limit, an unknown
/// path.  Each must be a spec-conformant gRPC response: 200, `application/grpc`, exactly one
/// `grpc-status`.
fn layers_case(rng: &mut Rng, ctx: &mut Ctx, idx: u64) {
    use crate::transport::{paused_rt, pipe, quiesce, PipeCfg};
    use http_body_util::BodyExt;
    use hyper_util::rt::{TokioExecutor, TokioIo};
    use std::time::Duration;
    let kind = ["server-timeout", "caller-timeout", "concurrency-limit", "unknown-path", "plain-ok"][(idx % 5) as usize];
    let pcfg = if rng.bool() { PipeCfg::plain() } else { PipeCfg::gen(rng) };
    let seed = rng.u64();
    ctx.begin(kind, json!({"kind": kind, "pipe": format!("{:?}", pcfg)}));
    ctx.count(&format!("layers.{}", kind));
    let rt = paused_rt();
    let handler = Handler::new();
    handler.set_script("slow", Script { latency_ms: 300, msgs: vec![Msg { data: vec![1; 5], seq: 1, tag: "late".into() }], ..Default::default() });
    handler.set_script("fast", Script { msgs: vec![Msg { data: vec![2; 5], seq: 2, tag: "ok".into() }], ..Default::default() });
    let h2 = handler.clone();
    type Resp = (u16, http::HeaderMap, usize, Vec<http::HeaderMap>);
    let out: Result<Vec<Resp>, String> = rt.block_on(async move {
        let (tx, rx) = tokio::sync::mpsc::unbounded_channel();
        let mut sb = tonic::transport::Server::builder();
        match kind {
            "server-timeout" => sb = sb.timeout(Duration::from_millis(40)),
            "concurrency-limit" => sb = sb.concurrency_limit_per_connection(1),
            _ => {}
        }
        let router = sb.add_service(VerifServer::new(h2));
        let st = tokio::spawn(async move {
            let _ = router.serve_with_incoming(crate::props::c14::Incoming(rx)).await;
        });
        let (a, b, _h) = pipe("raw", pcfg, Rng::new(seed), None);
        tx.send(Ok(b)).map_err(|_| "listener gone".to_string())?;
        let (mut sender, conn) = hyper::client::conn::http2::handshake(TokioExecutor::new(), TokioIo::new(a)).await.map_err(|e| format!("h2 handshake: {}", e))?;
        let cj = tokio::spawn(async move {
            let _ = conn.await;
        });
        let mk = |script: &str, path: &str, timeout: Option<&str>| {
            let body = http_body_util::Full::new(bytes::Bytes::from(ref_frame(0, &ref_pb_encode(b"q", 1, ""))));
            let mut req = http::Request::new(body);
            *req.method_mut() = http::Method::POST;
            *req.uri_mut() = format!("http://verif.test{}", path).parse().unwrap();
            req.headers_mut().insert("content-type", "application/grpc".parse().unwrap());
            req.headers_mut().insert("te", "trailers".parse().unwrap());
            req.headers_mut().insert("x-script", script.parse().unwrap());
            if let Some(t) = timeout {
                req.headers_mut().insert("grpc-timeout", t.parse().unwrap());
            }
            req
        };
        let reqs = match kind {
            "server-timeout" => vec![mk("slow", "/verif.v1.Verif/Unary", None)],
            "caller-timeout" => vec![mk("slow", "/verif.v1.Verif/Unary", Some("25m"))],
            "concurrency-limit" => vec![mk("slow", "/verif.v1.Verif/Unary", None), mk("fast", "/verif.v1.Verif/Unary", None)],
            "unknown-path" => vec![mk("fast", "/verif.v1.Nope/Unary", None)],
            _ => vec![mk("fast", "/verif.v1.Verif/Unary", None)],
        };
        let mut futs = Vec::new();
        for r in reqs {
            sender.ready().await.map_err(|e| format!("sender not ready: {}", e))?;
            futs.push(sender.send_request(r));
        }
        let mut outs = Vec::new();
        for f in futs {
            let resp = match tokio::time::timeout(Duration::from_secs(60), f).await {
                Err(_) => return Err("no response within 60 virtual seconds".to_string()),
                Ok(Err(e)) => return Err(format!("request failed at the HTTP/2 level: {}", e)),
                Ok(Ok(r)) => r,
            };
            let (parts, mut body) = resp.into_parts();
            let mut data = 0usize;
            let mut trailers = Vec::new();
            loop {
                match tokio::time::timeout(Duration::from_secs(60), body.frame()).await {
                    Err(_) => return Err("response body did not end within 60 virtual seconds".to_string()),
                    Ok(None) => break,
                    Ok(Some(Err(e))) => return Err(format!("response body error: {}", e)),
                    Ok(Some(Ok(fr))) => match fr.into_data() {
                        Ok(d) => data += d.len(),
                        Err(fr) => {
                            if let Ok(t) = fr.into_trailers() {
                                trailers.push(t);
                            }
                        }
                    },
                }
            }
            outs.push((parts.status.as_u16(), parts.headers, data, trailers));
        }
        drop(sender);
        quiesce().await;
        cj.abort();
        st.abort();
        Ok(outs)
    });
    drop(rt);
    match out {
        Err(e) => ctx.violation("layers-exchange-failed", e),
        Ok(resps) => {
            for (i, (status, headers, data, trailers)) in resps.iter().enumerate() {
                let w = format!("{} response #{}", kind, i);
                if *status != 200 {
                    ctx.violation_class("response-http-status", kind, format!("{}: HTTP {}", w, status));
                }
                if headers.get("content-type").map(|v| v.as_bytes()) != Some(b"application/grpc") {
                    ctx.violation_class("response-content-type", kind, format!("{}: content-type {:?} (headers: {:?})", w, headers.get("content-type"), headers.keys().map(|k| k.as_str()).collect::<Vec<_>>()));
                }
                let in_head = headers.get_all("grpc-status").iter().count();
                let in_trl: usize = trailers.iter().map(|t| t.get_all("grpc-status").iter().count()).sum();
                if in_head + in_trl != 1 {
                    ctx.violation_class("grpc-status-count", kind, format!("{}: {} grpc-status in the headers, {} in {} trailers block(s)", w, in_head, in_trl, trailers.len()));
                }
                if in_head == 1 && (*data != 0 || !trailers.is_empty()) {
                    ctx.violation_class("trailers-only-has-body", kind, format!("{}: grpc-status in the headers but {} body bytes / {} trailers blocks", w, data, trailers.len()));
                }
                let st = headers.get("grpc-status").or(trailers.first().and_then(|t| t.get("grpc-status"))).map(|v| String::from_utf8_lossy(v.as_bytes()).to_string());
                ctx.distinct("layer_statuses", &format!("{}#{}:{:?}", kind, i, st));
                // what the statement does not fix (which code the layer uses) is recorded only,
                // except that a layer-made refusal is never a success
                let must_fail = matches!((kind, i), ("server-timeout", 0) | ("caller-timeout", 0) | ("unknown-path", 0));
                if must_fail && st.as_deref() == Some("0") {
                    ctx.violation_class("layer-refusal-reported-ok", kind, format!("{}: grpc-status 0", w));
                }
            }
            ctx.fingerprint(format!("layers|{}|{}", kind, resps.len()), true);
        }
    }
}
