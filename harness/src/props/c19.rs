//! C19 — reflection resolves every registered symbol and file, and nothing else.
use crate::ctx::*;
use crate::prng::Rng;
use crate::svc::Loopback;
use prost::Message;
use prost_types::{DescriptorProto, EnumDescriptorProto, EnumValueDescriptorProto, FieldDescriptorProto, FileDescriptorProto, FileDescriptorSet, MethodDescriptorProto, OneofDescriptorProto, ServiceDescriptorProto};
use serde_json::json;
use std::collections::{BTreeMap, BTreeSet};
use tonic_reflection::pb::{v1, v1alpha};
use tonic_reflection::server::Builder;

struct GenFile {
    fd: FileDescriptorProto,
    /// fully-qualified symbol -> kind
    symbols: Vec<(String, &'static str)>,
    services: Vec<String>,
    /// C++-scoped spellings of enum values (sibling of the enum): unconstrained by the oracle
    cpp_enum_values: Vec<String>,
}

fn join(prefix: &str, name: &str) -> String {
    if prefix.is_empty() { name.to_string() } else { format!("{}.{}", prefix, name) }
}

fn gen_enum(rng: &mut Rng, tagn: &mut u32, scope: &str, out: &mut GenFile) -> EnumDescriptorProto {
    *tagn += 1;
    let name = format!("E{}", tagn);
    let fq = join(scope, &name);
    out.symbols.push((fq.clone(), "enum"));
    let nv = rng.urange(1, 3);
    let mut values = Vec::new();
    for i in 0..nv {
        *tagn += 1;
        let vn = format!("V{}", tagn);
        out.symbols.push((join(&fq, &vn), "enum-value"));
        out.cpp_enum_values.push(join(scope, &vn));
        values.push(EnumValueDescriptorProto { name: Some(vn), number: Some(i as i32), options: None });
    }
    EnumDescriptorProto { name: Some(name), value: values, ..Default::default() }
}

fn gen_message(rng: &mut Rng, tagn: &mut u32, scope: &str, depth: usize, out: &mut GenFile) -> DescriptorProto {
    *tagn += 1;
    let name = format!("M{}", tagn);
    let fq = join(scope, &name);
    out.symbols.push((fq.clone(), "message"));
    let mut m = DescriptorProto { name: Some(name), ..Default::default() };
    // field-less "namespace" messages with nested declarations are generated on purpose
    let nfields = if rng.chance(1, 3) { 0 } else { rng.urange(1, 3) };
    let noneof = if nfields > 0 && rng.chance(1, 3) { 1 } else { 0 };
    for i in 0..noneof {
        *tagn += 1;
        let on = format!("o{}", tagn);
        out.symbols.push((join(&fq, &on), "oneof"));
        m.oneof_decl.push(OneofDescriptorProto { name: Some(on), options: None });
        let _ = i;
    }
    for i in 0..nfields {
        *tagn += 1;
        let fname = format!("f{}", tagn);
        out.symbols.push((join(&fq, &fname), "field"));
        m.field.push(FieldDescriptorProto {
            name: Some(fname),
            number: Some(i as i32 + 1),
            label: Some(1),
            r#type: Some(9),
            oneof_index: if noneof > 0 && rng.bool() { Some(0) } else { None },
            ..Default::default()
        });
    }
    if depth < 3 {
        for _ in 0..rng.below(3) {
            let n = gen_message(rng, tagn, &fq, depth + 1, out);
            m.nested_type.push(n);
        }
    }
    for _ in 0..rng.below(2) {
        let e = gen_enum(rng, tagn, &fq, out);
        m.enum_type.push(e);
    }
    m
}

fn gen_file(rng: &mut Rng, idx: usize, tagn: &mut u32) -> GenFile {
    let pkg = match rng.below(5) {
        0 => None,
        // present but empty: what a descriptor built by hand or by another tool may carry
        4 => Some(String::new()),
        1 => Some(format!("p{}", idx)),
        2 => Some(format!("p{}.q", idx)),
        _ => Some(format!("org.p{}.v1", idx)),
    };
    let name = match rng.below(3) {
        0 => format!("f{}.proto", idx),
        1 => format!("dir/f{}.proto", idx),
        _ => format!("a/b/c/file_{}.proto", idx),
    };
    let mut out = GenFile { fd: FileDescriptorProto { name: Some(name), package: pkg.clone(), syntax: Some("proto3".into()), ..Default::default() }, symbols: vec![], services: vec![], cpp_enum_values: vec![] };
    let scope = pkg.unwrap_or_default();
    for _ in 0..rng.below(4) {
        let m = gen_message(rng, tagn, &scope, 1, &mut out);
        out.fd.message_type.push(m);
    }
    for _ in 0..rng.below(3) {
        let e = gen_enum(rng, tagn, &scope, &mut out);
        out.fd.enum_type.push(e);
    }
    for _ in 0..rng.below(3) {
        *tagn += 1;
        let sn = format!("S{}", tagn);
        let sfq = join(&scope, &sn);
        out.symbols.push((sfq.clone(), "service"));
        out.services.push(sfq.clone());
        let mut methods = Vec::new();
        for _ in 0..rng.below(3) {
            *tagn += 1;
            let mn = format!("Do{}", tagn);
            out.symbols.push((join(&sfq, &mn), "method"));
            methods.push(MethodDescriptorProto { name: Some(mn), input_type: Some(".x.In".into()), output_type: Some(".x.Out".into()), ..Default::default() });
        }
        out.fd.service.push(ServiceDescriptorProto { name: Some(sn), method: methods, options: None });
    }
    out
}

pub fn run(cfg: &RunCfg) -> Ctx {
    let mut all = Ctx::new();
    all.merge(par_cases(
        cfg,
        "reflect",
        cfg.n(1000, 16 * 30_000),
        || tokio::runtime::Builder::new_current_thread().enable_all().build().expect("verif-harness-bug: rt"),
        |rt, rng, ctx, _| case(rt, rng, ctx),
    ));
    for k in ["kind.message", "kind.field", "kind.oneof", "kind.enum", "kind.enum-value", "kind.service", "kind.method", "reg.duplicate_file", "reg.shared_file_then_new_files", "reg.encoded", "shape.fieldless_message_with_nested", "unknown.queries", "cfg.chosen_service_names", "files.queried"] {
        all.floor(k, 5);
    }
    all
}

#[derive(Debug, PartialEq, Clone)]
enum Answer {
    Files(Vec<Vec<u8>>),
    Services(Vec<String>),
    Other(String),
    Err(i32),
    Closed,
}

async fn ask_v1(server: v1::server_reflection_server::ServerReflectionServer<impl v1::server_reflection_server::ServerReflection>, reqs: Vec<v1::server_reflection_request::MessageRequest>, seed: u64) -> Vec<Answer> {
    let mut client = v1::server_reflection_client::ServerReflectionClient::new(Loopback::new(server, seed, 1 << 20));
    let n = reqs.len();
    let stream = tokio_stream::iter(reqs.into_iter().map(|r| v1::ServerReflectionRequest { host: "h".into(), message_request: Some(r) }));
    let mut out = Vec::new();
    match client.server_reflection_info(stream).await {
        Err(e) => out.push(Answer::Err(e.code() as i32)),
        Ok(resp) => {
            let mut st = resp.into_inner();
            loop {
                match st.message().await {
                    Ok(Some(m)) => out.push(match m.message_response {
                        Some(v1::server_reflection_response::MessageResponse::FileDescriptorResponse(f)) => Answer::Files(f.file_descriptor_proto),
                        Some(v1::server_reflection_response::MessageResponse::ListServicesResponse(l)) => Answer::Services(l.service.into_iter().map(|s| s.name).collect()),
                        other => Answer::Other(format!("{:?}", other.is_some())),
                    }),
                    Ok(None) => break,
                    Err(e) => {
                        out.push(Answer::Err(e.code() as i32));
                        break;
                    }
                }
            }
        }
    }
    while out.len() < n {
        out.push(Answer::Closed);
    }
    out
}

async fn ask_v1alpha(server: v1alpha::server_reflection_server::ServerReflectionServer<impl v1alpha::server_reflection_server::ServerReflection>, reqs: Vec<v1alpha::server_reflection_request::MessageRequest>, seed: u64) -> Vec<Answer> {
    let mut client = v1alpha::server_reflection_client::ServerReflectionClient::new(Loopback::new(server, seed, 1 << 20));
    let n = reqs.len();
    let stream = tokio_stream::iter(reqs.into_iter().map(|r| v1alpha::ServerReflectionRequest { host: "h".into(), message_request: Some(r) }));
    let mut out = Vec::new();
    match client.server_reflection_info(stream).await {
        Err(e) => out.push(Answer::Err(e.code() as i32)),
        Ok(resp) => {
            let mut st = resp.into_inner();
            loop {
                match st.message().await {
                    Ok(Some(m)) => out.push(match m.message_response {
                        Some(v1alpha::server_reflection_response::MessageResponse::FileDescriptorResponse(f)) => Answer::Files(f.file_descriptor_proto),
                        Some(v1alpha::server_reflection_response::MessageResponse::ListServicesResponse(l)) => Answer::Services(l.service.into_iter().map(|s| s.name).collect()),
                        other => Answer::Other(format!("{:?}", other.is_some())),
                    }),
                    Ok(None) => break,
                    Err(e) => {
                        out.push(Answer::Err(e.code() as i32));
                        break;
                    }
                }
            }
        }
    }
    while out.len() < n {
        out.push(Answer::Closed);
    }
    out
}

#[derive(Clone, Debug)]
enum Q {
    Symbol(String),
    File(String),
    List,
}

fn case(rt: &mut tokio::runtime::Runtime, rng: &mut Rng, ctx: &mut Ctx) {
    let nfiles = rng.urange(1, 4);
    let mut tagn = 0u32;
    let files: Vec<GenFile> = (0..nfiles).map(|i| gen_file(rng, i, &mut tagn)).collect();
    // group the files into registration sets; files may be shared between sets / repeated
    let nsets = rng.urange(1, 3);
    let mut sets: Vec<Vec<usize>> = vec![Vec::new(); nsets];
    for i in 0..nfiles {
        let s = rng.usize_below(nsets);
        sets[s].push(i);
    }
    let mut dup = false;
    let mut shared_then_new = false;
    if rng.chance(1, 2) {
        // a file every later set starts with (like a common import emitted first)
        let shared = rng.usize_below(nfiles);
        for (si, s) in sets.iter_mut().enumerate() {
            if !s.contains(&shared) || si > 0 {
                s.retain(|x| *x != shared);
                s.insert(0, shared);
            }
        }
        dup = nsets > 1;
        shared_then_new = sets.iter().skip(1).any(|s| s.len() > 1);
    }
    if rng.chance(1, 4) {
        let s = rng.usize_below(nsets);
        if let Some(&f) = sets[s].first() {
            sets[s].push(f);
            dup = true;
        }
    }
    let include_reflection = rng.bool();
    let all_services: Vec<String> = files.iter().flat_map(|f| f.services.clone()).collect();
    let chosen: Option<Vec<String>> = if rng.chance(1, 4) {
        let mut c: Vec<String> = all_services.iter().filter(|_| rng.bool()).cloned().collect();
        c.push("custom.Name".into());
        Some(c)
    } else {
        None
    };
    let encoded_mask: Vec<bool> = (0..nsets).map(|_| rng.bool()).collect();
    let case_json = json!({"files": files.iter().map(|f| json!({"name": f.fd.name, "package": f.fd.package, "symbols": f.symbols.len(), "services": f.services})).collect::<Vec<_>>(),
        "sets": sets, "encoded": encoded_mask, "include_reflection_service": include_reflection, "chosen_service_names": chosen});
    ctx.begin("descriptor-sets", case_json.clone());
    if dup {
        ctx.count("reg.duplicate_file");
    }
    if shared_then_new {
        ctx.count("reg.shared_file_then_new_files");
    }
    if chosen.is_some() {
        ctx.count("cfg.chosen_service_names");
    }
    fn fieldless_nested(m: &DescriptorProto) -> bool {
        (m.field.is_empty() && (!m.nested_type.is_empty() || !m.enum_type.is_empty())) || m.nested_type.iter().any(fieldless_nested)
    }
    if files.iter().any(|f| f.fd.message_type.iter().any(fieldless_nested)) {
        ctx.count("shape.fieldless_message_with_nested");
    }
    let fdsets: Vec<FileDescriptorSet> = sets.iter().map(|s| FileDescriptorSet { file: s.iter().map(|&i| files[i].fd.clone()).collect() }).collect();
    let encoded: Vec<Vec<u8>> = fdsets.iter().map(|s| s.encode_to_vec()).collect();
    let build = |_: ()| {
        let mut b = Builder::configure().include_reflection_service(include_reflection);
        for (i, s) in fdsets.iter().enumerate() {
            if encoded_mask[i] {
                b = b.register_encoded_file_descriptor_set(&encoded[i]);
            } else {
                b = b.register_file_descriptor_set(s.clone());
            }
        }
        if let Some(c) = &chosen {
            for n in c {
                b = b.with_service_name(n.clone());
            }
        }
        b
    };
    if encoded_mask.iter().any(|x| *x) {
        ctx.count("reg.encoded");
    }
    let s1 = match build(()).build_v1() {
        Ok(s) => s,
        Err(e) => {
            ctx.violation("build-failed", format!("build_v1 failed: {}", e));
            return;
        }
    };
    let s2 = match build(()).build_v1alpha() {
        Ok(s) => s,
        Err(e) => {
            ctx.violation("build-failed", format!("build_v1alpha failed: {}", e));
            return;
        }
    };
    // queries: every declared symbol, every file, the service list
    let registered: BTreeSet<usize> = sets.iter().flatten().copied().collect();
    let mut qs: Vec<(Q, Option<usize>)> = Vec::new(); // (query, file index expected)
    let mut declared: BTreeMap<String, usize> = BTreeMap::new();
    for &i in &registered {
        for (sym, kind) in &files[i].symbols {
            ctx.count(&format!("kind.{}", kind));
            declared.insert(sym.clone(), i);
            qs.push((Q::Symbol(sym.clone()), Some(i)));
        }
        qs.push((Q::File(files[i].fd.name.clone().unwrap()), Some(i)));
        ctx.count("files.queried");
    }
    qs.push((Q::List, None));
    rng.shuffle(&mut qs);
    let seed = rng.u64();
    let to_v1 = |q: &Q| match q {
        Q::Symbol(s) => v1::server_reflection_request::MessageRequest::FileContainingSymbol(s.clone()),
        Q::File(s) => v1::server_reflection_request::MessageRequest::FileByFilename(s.clone()),
        Q::List => v1::server_reflection_request::MessageRequest::ListServices(String::new()),
    };
    let to_v1a = |q: &Q| match q {
        Q::Symbol(s) => v1alpha::server_reflection_request::MessageRequest::FileContainingSymbol(s.clone()),
        Q::File(s) => v1alpha::server_reflection_request::MessageRequest::FileByFilename(s.clone()),
        Q::List => v1alpha::server_reflection_request::MessageRequest::ListServices(String::new()),
    };
    let a1 = rt.block_on(ask_v1(s1.clone(), qs.iter().map(|q| to_v1(&q.0)).collect(), seed));
    let a2 = rt.block_on(ask_v1alpha(s2.clone(), qs.iter().map(|q| to_v1a(&q.0)).collect(), seed));
    for (k, ((q, want_file), ans)) in qs.iter().zip(&a1).enumerate() {
        match (q, ans) {
            (Q::List, Answer::Services(got)) => {
                let mut want: Vec<String> = match &chosen {
                    Some(c) => c.clone(),
                    None => {
                        let mut w: Vec<String> = registered.iter().flat_map(|&i| files[i].services.clone()).collect();
                        if include_reflection {
                            w.push("grpc.reflection.v1.ServerReflection".into());
                        }
                        w
                    }
                };
                let mut g = got.clone();
                g.sort();
                want.sort();
                if g != want {
                    ctx.violation("service-list", format!("ListServices = {:?}, declared/chosen = {:?}", g, want));
                }
            }
            (Q::Symbol(_), Answer::Files(fs)) | (Q::File(_), Answer::Files(fs)) => {
                let wf = &files[want_file.unwrap()].fd;
                let ok = fs.len() == 1 && FileDescriptorProto::decode(&fs[0][..]).map(|d| &d == wf).unwrap_or(false);
                if !ok {
                    let got_name = fs.first().and_then(|b| FileDescriptorProto::decode(&b[..]).ok()).and_then(|d| d.name);
                    let kind = match q { Q::Symbol(s) => files[want_file.unwrap()].symbols.iter().find(|x| &x.0 == s).map(|x| x.1).unwrap_or("?"), _ => "file" };
                    ctx.violation_class("wrong-descriptor", kind, format!("{:?} resolved to {:?} ({} descriptors), declared in {:?}", q, got_name, fs.len(), wf.name));
                }
            }
            (q, other) => {
                let kind = match q { Q::Symbol(s) => files[want_file.unwrap_or(0)].symbols.iter().find(|x| &x.0 == s).map(|x| x.1).unwrap_or("?"), Q::File(_) => "file", Q::List => "list" };
                ctx.violation_class("declared-name-not-resolved", kind, format!("{:?} (query {} of the stream) answered with {:?}", q, k, other));
                break; // an error ends the stream: later answers are Closed
            }
        }
    }
    // each version lists its own reflection service: the only legitimate difference
    let a2: Vec<Answer> = a2
        .into_iter()
        .map(|a| match a {
            Answer::Services(v) => Answer::Services(v.into_iter().map(|n| n.replace("grpc.reflection.v1alpha.", "grpc.reflection.v1.")).collect()),
            o => o,
        })
        .collect();
    if a1 != a2 {
        let i = a1.iter().zip(&a2).position(|(x, y)| x != y).unwrap_or(0);
        ctx.violation("v1-v1alpha-differ", format!("v1 and v1alpha disagree on {:?}: {:?} vs {:?}", qs.get(i).map(|q| &q.0), a1.get(i), a2.get(i)).replace("grpc.reflection.v1alpha", "grpc.reflection.v1"));
    }
    // unknown names: one stream each (an error ends the stream)
    let mut unknown: Vec<String> = Vec::new();
    let cpp: BTreeSet<String> = files.iter().flat_map(|f| f.cpp_enum_values.clone()).collect();
    let names: Vec<String> = declared.keys().cloned().collect();
    for _ in 0..4 {
        let cand = if names.is_empty() || rng.chance(1, 4) {
            rng.pick(&["", ".", "nope", "p0", "p0.q", "org", "x.In", "grpc", "M1", "..", "p0."]).to_string()
        } else {
            let n = rng.pick(&names).clone();
            match rng.below(9) {
                7 => format!("{}.nope", n),
                8 => format!("{}.{}", n, n.rsplit('.').next().unwrap_or("x")),
                0 => format!("{}x", n),
                1 => n[..n.len() - 1].to_string(),
                2 => format!("{}.", n),
                3 => format!(".{}", n),
                4 => n.to_lowercase(),
                5 => format!("zz.{}", n),
                _ => n.rsplit_once('.').map(|(a, b)| format!("{}.{}{}", a, b, b)).unwrap_or(format!("{}{}", n, n)),
            }
        };
        if !declared.contains_key(&cand) && !cpp.contains(&cand) && !cand.starts_with("grpc.reflection") {
            unknown.push(cand);
        }
    }
    let file_names: BTreeSet<String> = registered.iter().map(|&i| files[i].fd.name.clone().unwrap()).collect();
    // the two name spaces are separate: a file name is not a symbol, a symbol is not a file name -
    // also (especially) after the same service instance has answered the straight lookups above
    for f in file_names.iter().take(3) {
        if !declared.contains_key(f) {
            unknown.push(f.clone());
        }
    }
    for sym in names.iter().take(40).filter(|n| !file_names.contains(*n)).take(3) {
        ctx.count("unknown.symbol_as_file");
        let r = rt.block_on(ask_v1(s1.clone(), vec![v1::server_reflection_request::MessageRequest::FileByFilename(sym.clone())], seed));
        let r2 = rt.block_on(ask_v1alpha(s2.clone(), vec![v1alpha::server_reflection_request::MessageRequest::FileByFilename(sym.clone())], seed));
        if r.first() != Some(&Answer::Err(5)) || r2.first() != Some(&Answer::Err(5)) {
            ctx.violation("unknown-file-resolved", format!("{:?} is a symbol, not a registered file, but FileByFilename answered {:?} / {:?}", sym, r.first().map(|a| matches!(a, Answer::Files(_))), r2.first().map(|a| matches!(a, Answer::Files(_)))));
        }
    }
    for u in &unknown {
        ctx.count("unknown.queries");
        let r1 = rt.block_on(ask_v1(s1.clone(), vec![v1::server_reflection_request::MessageRequest::FileContainingSymbol(u.clone())], seed));
        let r2 = rt.block_on(ask_v1alpha(s2.clone(), vec![v1alpha::server_reflection_request::MessageRequest::FileContainingSymbol(u.clone())], seed));
        if r1.first() != Some(&Answer::Err(5)) {
            ctx.violation("unknown-name-resolved", format!("symbol {:?} is not declared but was answered with {:?}", u, r1.first().map(|a| match a { Answer::Files(f) => format!("{} descriptor(s)", f.len()), o => format!("{:?}", o) })));
        }
        if r1 != r2 {
            ctx.violation("v1-v1alpha-differ", format!("unknown symbol {:?}: {:?} vs {:?}", u, r1, r2));
        }
        if !file_names.contains(u) {
            let r = rt.block_on(ask_v1(s1.clone(), vec![v1::server_reflection_request::MessageRequest::FileByFilename(u.clone())], seed));
            if r.first() != Some(&Answer::Err(5)) {
                ctx.violation("unknown-file-resolved", format!("file {:?} is not registered but was answered with {:?}", u, r.first()));
            }
        }
    }
    ctx.add("observed.symbol_queries", declared.len() as u64);
    ctx.fingerprint(format!("refl|f{}|s{}|dup{}|shared{}|incl{}|chosen{}|sym{}", nfiles, nsets, dup as u8, shared_then_new as u8, include_reflection as u8, chosen.is_some() as u8, (declared.len() / 10).min(6)), declared.len() >= 5);
    ctx.sample(case_json);
}
