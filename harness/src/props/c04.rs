//! C04 — status survives the header encoding; reading any headers is total; mapping tables.
use crate::ctx::*;
use crate::gen::*;
use crate::prng::Rng;
use crate::refc::*;
use http::{HeaderMap, HeaderName, HeaderValue};
use serde_json::json;
use tonic::{Code, Status};

pub fn run(cfg: &RunCfg) -> Ctx {
    let mut all = Ctx::new();
    all.merge(par_cases(cfg, "roundtrip", cfg.n(30_000, 16 * 2_000_000), || (), |_, rng, ctx, _| roundtrip(rng, ctx)));
    all.merge(par_cases(cfg, "total", cfg.n(40_000, 16 * 3_000_000), || (), |_, rng, ctx, _| totality(rng, ctx)));
    all.merge(seq_cases(cfg, "httptable", 500, |_, ctx, i| http_table(ctx, 100 + i as u16)));
    #[cfg(feature = "full")]
    all.merge(seq_cases(cfg, "h2table", 24, |_, ctx, i| h2_table(ctx, i)));
    all.floor("rt.details_len_mod3.0", 5);
    all.floor("rt.details_len_mod3.1", 5);
    all.floor("rt.details_len_mod3.2", 5);
    all.floor("rt.message_nonascii", 20);
    all.floor("rt.message_percent", 20);
    all.floor("total.bad_base64", 20);
    all.floor("total.bad_utf8", 20);
    all.floor("total.bad_code", 20);
    all.floor("http.statuses", 500);
    all
}

fn code_of(bytes: &[u8]) -> Code {
    // spec: grpc-status is the decimal ASCII of 0..=16; anything else is unknown
    match std::str::from_utf8(bytes).ok() {
        Some(s) if !s.is_empty() && s.len() <= 2 && s.bytes().all(|b| b.is_ascii_digit()) && !(s.len() == 2 && s.starts_with('0')) => {
            let n: i32 = s.parse().unwrap();
            if (0..=16).contains(&n) { Code::from_i32(n) } else { Code::Unknown }
        }
        _ => Code::Unknown,
    }
}

fn roundtrip(rng: &mut Rng, ctx: &mut Ctx) {
    let code = *rng.pick(&ALL_CODES);
    let message = match rng.below(6) {
        0 => String::new(),
        1 => "%".repeat(rng.urange(1, 4)),
        2 => {
            // all-ASCII text that already looks percent-encoded
            let mut m = String::new();
            for _ in 0..rng.urange(1, 4) {
                m.push_str(*rng.pick(&["a%2Fb", "100%25", "%41", "50%2", "%zz", "%20c", " x ", "%e4%b8%ad", "%%41"]));
            }
            m
        }
        _ => rng.unicode(40),
    };
    let details = gen_details(rng);
    let meta = gen_meta(rng, 6, true);
    let case = json!({"code": code as i32, "message": message, "details": short(&details), "metadata": meta_json(&meta)});
    ctx.begin("status", case.clone());
    if !details.is_empty() {
        ctx.count(&format!("rt.details_len_mod3.{}", details.len() % 3));
    }
    if !message.is_ascii() {
        ctx.count("rt.message_nonascii");
    }
    if message.contains('%') {
        ctx.count("rt.message_percent");
    }
    let st = Status::with_details_and_metadata(code, message.clone(), details.clone().into(), build_meta(&meta));
    let mut hm = HeaderMap::new();
    // pre-existing unrelated header must survive
    hm.insert("verif-pre", HeaderValue::from_static("1"));
    let via_http = rng.bool();
    if via_http {
        let resp: http::Response<()> = {
            // Status is not Clone: rebuild
            let st2 = Status::with_details_and_metadata(code, message.clone(), details.clone().into(), build_meta(&meta));
            st2.into_http::<()>()
        };
        hm = resp.headers().clone();
        if resp.status() != http::StatusCode::OK {
            ctx.violation("http-status", format!("Status::into_http gave HTTP {}", resp.status()));
        }
        if hm.get("content-type").map(|v| v.as_bytes()) != Some(b"application/grpc") {
            ctx.violation("content-type", format!("Status::into_http content-type {:?}", hm.get("content-type")));
        }
        hm.remove("content-type");
    } else if let Err(e) = st.add_header(&mut hm) {
        ctx.violation("add-header-failed", format!("add_header failed: {:?}", e.message()));
        return;
    }
    // legality of what was written
    for (k, v) in hm.iter() {
        if !is_legal_header_value(v.as_bytes()) {
            ctx.violation("illegal-header-value", format!("{}: {:?}", k, short(v.as_bytes())));
        }
    }
    match hm.get("grpc-status") {
        Some(v) if v.as_bytes() == (code as i32).to_string().as_bytes() => {}
        other => ctx.violation("grpc-status-wire", format!("grpc-status on the wire {:?} for code {}", other, code as i32)),
    }
    if hm.get_all("grpc-status").iter().count() != 1 {
        ctx.violation("grpc-status-count", "more than one grpc-status".into());
    }
    match hm.get("grpc-message") {
        None => {
            if !message.is_empty() {
                ctx.violation("message-missing", "grpc-message absent for a non-empty message".into());
            }
        }
        Some(v) => {
            if !is_valid_percent_encoded(v.as_bytes()) {
                ctx.violation("message-not-percent-encoded", format!("grpc-message {:?} violates the Percent-Encoded grammar", short(v.as_bytes())));
            }
            if percent_decode(v.as_bytes()) != message.as_bytes() {
                ctx.violation("message-wire", "independent percent-decoding of grpc-message does not give the message".into());
            }
        }
    }
    match hm.get("grpc-status-details-bin") {
        None => {
            if !details.is_empty() {
                ctx.violation("details-missing", "details header absent".into());
            }
        }
        Some(v) => {
            // padded or not is the sender's choice (a receiver must take both)
            if !b64_is_wellformed(v.as_bytes()) {
                ctx.violation("details-wire", "grpc-status-details-bin is not well-formed base64".into());
            }
            if b64_decode(v.as_bytes()).as_deref() != Some(&details[..]) {
                ctx.violation("details-wire", "independent base64 decoding of the details header does not give the details".into());
            }
        }
    }
    if !via_http && hm.get("verif-pre").is_none() {
        ctx.violation("clobbered-header", "add_header removed an unrelated pre-existing header".into());
    }
    hm.remove("verif-pre");
    // a peer may pad the binary values: re-encode details padded half of the time
    if rng.bool() && !details.is_empty() {
        hm.insert("grpc-status-details-bin", HeaderValue::from_str(&b64_encode(&details, true)).unwrap());
        ctx.count("rt.peer_padded_details");
    }
    // read back
    match Status::from_header_map(&hm) {
        None => ctx.violation("read-none", "from_header_map returned None although grpc-status is present".into()),
        Some(back) => {
            if back.code() != code {
                ctx.violation("code-differs", format!("{:?} -> {:?}", code, back.code()));
            }
            if back.message() != message {
                ctx.violation("message-differs", format!("{:?} -> {:?}", message, back.message()));
            }
            if back.details() != &details[..] {
                ctx.violation("details-differ", format!("{} -> {}", short(&details), short(back.details())));
            }
            match meta_multimap(back.metadata()) {
                Err(e) => ctx.violation("metadata-unreadable", e),
                Ok(mm) => {
                    let want = spec_multimap(&meta);
                    if mm != want {
                        ctx.violation("metadata-differs", format!("{:?} != expected {:?}", mm.keys().collect::<Vec<_>>(), want.keys().collect::<Vec<_>>()));
                    }
                }
            }
        }
    }
    ctx.fingerprint(
        format!("rt|c{}|m{}|d{}|md{}|{}", code as i32, if message.is_empty() {"0"} else if message.is_ascii() {"a"} else {"u"}, details.len().min(4), meta.len().min(3), via_http),
        !message.is_empty() || !details.is_empty(),
    );
    ctx.sample(case);
}

fn totality(rng: &mut Rng, ctx: &mut Ctx) {
    let mut hm = HeaderMap::new();
    // grpc-status
    let status_kind = rng.below(8);
    let status_bytes: Option<Vec<u8>> = match status_kind {
        0 => None,
        1 => Some(rng.range(0, 16).to_string().into_bytes()),
        2 if rng.bool() => Some(rng.pick(&["17", "99", "100", "-1", "00", "01", "016", " 1", "1 ", "+1", "1.0", "", "0x1", "١", "255", "256", "4294967296", "18446744073709551616"]).as_bytes().to_vec()),
        // every two-digit (and some three-digit) number above the last code
        2 => Some(rng.range(17, 130).to_string().into_bytes()),
        3 => Some(rng.bytes_range(0, 6).into_iter().map(|b| if b == b'\n' || b == b'\r' || b == 0 || b == 0x7f || (b < 0x20 && b != b'\t') { b'?' } else { b }).collect()),
        _ => Some(rng.range(0, 16).to_string().into_bytes()),
    };
    if let Some(b) = &status_bytes {
        hm.insert("grpc-status", HeaderValue::from_bytes(b).expect("verif-harness-bug: status value"));
    }
    // grpc-message
    let msg_kind = rng.below(7);
    let msg_bytes: Option<Vec<u8>> = match msg_kind {
        0 => None,
        1 => Some(b"plain".to_vec()),
        2 => Some(rng.pick(&["%", "a%", "%z", "%zz", "%4", "100%", "%%%", "%e4", "%e4%b8", "%ff%fe", "%c3%28", "ok%20fine", "%E4%B8%AD"]).as_bytes().to_vec()),
        3 => {
            // raw high bytes (obs-text) are legal header bytes
            let mut v = rng.bytes_range(1, 10);
            for b in v.iter_mut() {
                if *b < 0x20 || *b == 0x7f {
                    *b = 0x80 | *b;
                }
            }
            Some(v)
        }
        _ => {
            let s = rng.unicode(12);
            Some(s.bytes().flat_map(|b| if (0x20..0x7f).contains(&b) && b != b'%' { vec![b] } else { format!("%{:02X}", b).into_bytes() }).collect())
        }
    };
    if let Some(b) = &msg_bytes {
        hm.insert("grpc-message", HeaderValue::from_bytes(b).expect("verif-harness-bug: message value"));
    }
    // details
    let det_kind = rng.below(7);
    let raw = rng.bytes_range(0, 20);
    let det_bytes: Option<Vec<u8>> = match det_kind {
        0 => None,
        1 => Some(b64_encode(&raw, false).into_bytes()),
        2 => Some(b64_encode(&raw, true).into_bytes()),
        3 => Some(rng.pick(&["!!!", "a", "abcde", "ab cd", "ab\tcd", "====", "a===", "*", "YWJj\u{e9}", "-_-_"]).as_bytes().to_vec()),
        4 => {
            // odd padding / trailing bits: decoders may differ
            Some(rng.pick(&["QQ=", "QR", "QR==", "QUI", "QUJ=", "QQ==="]).as_bytes().to_vec())
        }
        _ => Some(b64_encode(&raw, rng.bool()).into_bytes()),
    };
    if let Some(b) = &det_bytes {
        hm.insert("grpc-status-details-bin", HeaderValue::from_bytes(b).expect("verif-harness-bug: details value"));
    }
    // some other headers
    if rng.bool() {
        hm.append("x-a", HeaderValue::from_static("1"));
        hm.append("x-a", HeaderValue::from_static("2"));
        hm.insert("x-b-bin", HeaderValue::from_static("!!notbase64"));
    }
    let class = format!("s{}m{}d{}", status_kind.min(4), msg_kind.min(4), det_kind.min(5));
    let case = json!({"grpc-status": status_bytes.as_ref().map(|b| short(b)), "grpc-message": msg_bytes.as_ref().map(|b| String::from_utf8_lossy(b).to_string()),
        "grpc-status-details-bin": det_bytes.as_ref().map(|b| String::from_utf8_lossy(b).to_string())});
    // stable class for signatures: which field is malformed
    let msg_decoded = msg_bytes.as_ref().map(|b| String::from_utf8(percent_decode(b)));
    let bad_utf8 = matches!(msg_decoded, Some(Err(_)));
    let det_class = match &det_bytes {
        None => "none",
        Some(b) => {
            let body: Vec<u8> = b.iter().copied().filter(|c| *c != b'=').collect();
            let alphabet_ok = body.iter().all(|c| c.is_ascii_alphanumeric() || *c == b'+' || *c == b'/');
            let pads = b.len() - body.len();
            let pads_at_end = b.iter().rev().take(pads).all(|c| *c == b'=');
            if !alphabet_ok || body.len() % 4 == 1 || !pads_at_end {
                "invalid"
            } else if b64_is_canonical_unpadded(&body) && (pads == 0 || (body.len() + pads) % 4 == 0 && pads <= 2) {
                "valid"
            } else {
                "dubious"
            }
        }
    };
    ctx.begin(&format!("{}{}", if bad_utf8 { "bad-utf8-message" } else { "message-ok" }, match det_class { "invalid" => "+bad-base64-details", "dubious" => "+dubious-base64-details", _ => "" }), case.clone());
    if bad_utf8 {
        ctx.count("total.bad_utf8");
    }
    if det_class == "invalid" {
        ctx.count("total.bad_base64");
    }
    let got = Status::from_header_map(&hm); // a panic here is caught by the case runner
    match (&status_bytes, got) {
        (None, None) => {}
        (None, Some(_)) => ctx.violation("status-from-nothing", "a status was produced without grpc-status".into()),
        (Some(_), None) => ctx.violation("read-none", "None although grpc-status present".into()),
        (Some(sb), Some(st)) => {
            let want_code = code_of(sb);
            if want_code == Code::Unknown && !(sb == b"2") {
                ctx.count("total.bad_code");
            }
            let undecodable = bad_utf8 || det_class == "invalid";
            if undecodable {
                if st.code() == Code::Ok {
                    ctx.violation("undecodable-gave-ok", "an undecodable field did not degrade to an error status".into());
                }
            } else {
                if det_class == "dubious" {
                    // odd padding / non-zero trailing bits: decoders legitimately differ; either the
                    // status is read as announced or it degrades to an error status
                    if st.code() != want_code && st.code() == Code::Ok {
                        ctx.violation("undecodable-gave-ok", "dubious details gave OK".into());
                    }
                } else {
                    if st.code() != want_code {
                        ctx.violation("code-mapping", format!("grpc-status {:?} read as {:?}, want {:?}", short(sb), st.code(), want_code));
                    }
                    if let Some(Ok(m)) = &msg_decoded {
                        if st.message() != m {
                            ctx.violation("message-differs", format!("read {:?}, independent decoding gives {:?}", st.message(), m));
                        }
                    }
                    if det_class == "valid" {
                        let body: Vec<u8> = det_bytes.as_ref().unwrap().iter().copied().filter(|c| *c != b'=').collect();
                        if Some(st.details().to_vec()) != b64_decode(&body) {
                            ctx.violation("details-differ", "details differ from independent decoding".into());
                        }
                    }
                }
            }
            // status headers never leak into the metadata
            for k in ["grpc-status", "grpc-message", "grpc-status-details-bin"] {
                if st.metadata().get(k).is_some() || st.metadata().get_bin(k).is_some() {
                    ctx.violation("status-header-in-metadata", format!("{} still present in the status metadata", k));
                }
            }
        }
    }
    ctx.fingerprint(format!("tot|{}|{}|{}", class, bad_utf8, det_class), bad_utf8 || det_class != "valid" || status_kind == 2 || status_kind == 3);
    ctx.sample(case);
}

fn http_code_table(s: u16) -> Option<Code> {
    // doc/http-grpc-status-mapping.md
    match s {
        200 => None,
        400 => Some(Code::Internal),
        401 => Some(Code::Unauthenticated),
        403 => Some(Code::PermissionDenied),
        404 => Some(Code::Unimplemented),
        429 | 502 | 503 | 504 => Some(Code::Unavailable),
        _ => Some(Code::Unknown),
    }
}

fn http_table(ctx: &mut Ctx, status: u16) {
    use crate::codec_drv::*;
    use crate::pb::RawDecoder;
    use crate::script::BStep;
    ctx.begin(&format!("http-{}", status), json!({"http_status": status}));
    ctx.count("http.statuses");
    // (a) no trailers at all
    let out = decode_run(RawDecoder { bs: (8192, 32768) }, vec![], Dir::Response(status), Enc::Identity, None, 1, false, false);
    let first = out.seq.first();
    match (http_code_table(status), first) {
        (None, Some(DItem::End)) => {}
        (Some(c), Some(DItem::Err(s))) if s.code() == c => {}
        (want, got) => ctx.violation("http-mapping", format!("HTTP {} without grpc-status: want {:?}, got {:?}", status, want, got.map(|g| match g { DItem::End => "end".to_string(), DItem::Err(s) => format!("{:?}", s.code()), DItem::Msg(_) => "msg".into() }))),
    }
    // (b) trailers with a grpc-status take precedence over the HTTP status
    let mut t = HeaderMap::new();
    t.insert("grpc-status", HeaderValue::from_static("9"));
    let out = decode_run(RawDecoder { bs: (8192, 32768) }, vec![BStep::Trailers(t)], Dir::Response(status), Enc::Identity, None, 1, false, false);
    match out.seq.first() {
        Some(DItem::Err(s)) if s.code() == Code::FailedPrecondition => {}
        other => ctx.violation("trailers-precedence", format!("HTTP {} with grpc-status 9 in trailers gave {:?}", status, other.map(|g| match g { DItem::End => "end".to_string(), DItem::Err(s) => format!("{:?}", s.code()), DItem::Msg(_) => "msg".into() }))),
    }
    // (c) a trailers block that carries no grpc-status leaves the HTTP status in charge
    if status != 200 {
        let mut t = HeaderMap::new();
        t.insert("x-other", HeaderValue::from_static("1"));
        let out = decode_run(RawDecoder { bs: (8192, 32768) }, vec![BStep::Trailers(t)], Dir::Response(status), Enc::Identity, None, 1, false, false);
        match (http_code_table(status), out.seq.first()) {
            (Some(c), Some(DItem::Err(s))) if s.code() == c => {}
            (want, got) => ctx.violation("http-mapping", format!("HTTP {} with trailers that carry no grpc-status: want {:?}, got {:?}", status, want, got.map(|g| match g { DItem::End => "end (success)".to_string(), DItem::Err(s) => format!("{:?}", s.code()), DItem::Msg(_) => "msg".into() }))),
        }
    }
    // (d) a grpc-status in the response HEADERS (Trailers-Only form) is the status, whatever the
    //     HTTP status beside it: seen through the real client
    #[cfg(feature = "full")]
    {
        use crate::exec::{Exec, Out};
        let svc = HeadSvc { status, headers: vec![("grpc-status", "9".to_string()), ("grpc-message", "from%20headers".to_string())] };
        let mut client = crate::pb::verif::verif_client::VerifClient::new(svc);
        let mut ex = Exec::new();
        match ex.block_on(10_000, client.unary(tonic::Request::new(crate::pb::Msg::default()))) {
            Out::Done(Err(s)) if s.code() == Code::FailedPrecondition && s.message() == "from headers" => {}
            Out::Done(other) => ctx.violation("headers-status-ignored", format!("HTTP {} with grpc-status 9 / grpc-message in the response headers gave {:?}", status, other.map(|_| "Ok").map_err(|s| format!("{:?}: {}", s.code(), s.message())))),
            _ => ctx.violation("hang", "client call did not complete".into()),
        }
        ctx.count("http.header_status_through_client");
    }
    ctx.fingerprint(format!("http|{}", status), status != 200);
}

/// Answers every request with a body-less response of the given HTTP status and headers.
#[cfg(feature = "full")]
#[derive(Clone)]
struct HeadSvc {
    status: u16,
    headers: Vec<(&'static str, String)>,
}
#[cfg(feature = "full")]
impl tower_service::Service<http::Request<tonic::body::Body>> for HeadSvc {
    type Response = http::Response<tonic::body::Body>;
    type Error = std::convert::Infallible;
    type Future = std::future::Ready<Result<Self::Response, Self::Error>>;
    fn poll_ready(&mut self, _: &mut std::task::Context<'_>) -> std::task::Poll<Result<(), Self::Error>> {
        std::task::Poll::Ready(Ok(()))
    }
    fn call(&mut self, _req: http::Request<tonic::body::Body>) -> Self::Future {
        let mut resp = http::Response::new(tonic::body::Body::default());
        *resp.status_mut() = http::StatusCode::from_u16(self.status).expect("verif-harness-bug: status");
        resp.headers_mut().insert("content-type", HeaderValue::from_static("application/grpc"));
        for (k, v) in &self.headers {
            resp.headers_mut().insert(*k, HeaderValue::from_str(v).expect("verif-harness-bug: header"));
        }
        std::future::ready(Ok(resp))
    }
}

#[cfg(feature = "full")]
fn h2_table(ctx: &mut Ctx, i: u64) {
    // 0..=13 are the registered HTTP/2 error codes, then some unknown ones
    let reason_u32: u32 = match i {
        0..=13 => i as u32,
        14 => 14,
        15 => 0x20,
        16 => 0xff,
        17 => 0xffff,
        18 => u32::MAX,
        _ => 14 + i as u32,
    };
    ctx.begin(&format!("h2-reason-{:#x}", reason_u32), json!({"h2_reason": reason_u32}));
    // spec table (PROTOCOL-HTTP2.md#errors); None = unconstrained
    let want: Option<Code> = match reason_u32 {
        0 | 1 | 2 | 3 | 4 | 6 | 9 | 10 => Some(Code::Internal),
        7 => Some(Code::Unavailable),
        8 => Some(Code::Cancelled),
        11 => Some(Code::ResourceExhausted),
        12 => Some(Code::PermissionDenied),
        _ => None, // STREAM_CLOSED (5), HTTP_1_1_REQUIRED (13), unknown
    };
    let mk = || h2::Error::from(h2::Reason::from(reason_u32));
    let a = Status::from(mk());
    let b = Status::from_error(Box::new(mk()));
    // nested in a source chain is handled through hyper only; direct forms must agree
    if a.code() != b.code() {
        ctx.violation("h2-inconsistent", format!("From<h2::Error> gives {:?}, from_error gives {:?}", a.code(), b.code()));
    }
    if let Some(w) = want {
        if a.code() != w {
            ctx.violation("h2-mapping", format!("HTTP/2 error code {:#x} mapped to {:?}, the gRPC table says {:?}", reason_u32, a.code(), w));
        }
    }
    // Status -> h2: CANCELLED resets with CANCEL, never panics for any code
    for c in ALL_CODES {
        let e: h2::Error = Status::new(c, "x").into();
        if c == Code::Cancelled && e.reason() != Some(h2::Reason::CANCEL) {
            ctx.violation("to-h2", format!("Cancelled -> {:?}", e.reason()));
        }
        if e.reason().is_none() {
            ctx.violation("to-h2", format!("{:?} -> h2 error without reason", c));
        }
    }
    ctx.count("h2.reasons");
    ctx.fingerprint(format!("h2|{:#x}", reason_u32), true);
}

#[allow(dead_code)]
fn _unused(_: HeaderName) {}
