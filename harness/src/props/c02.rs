//! C02 — client observes exactly the messages, metadata and status the server produced.
use crate::ctx::*;
use crate::exec::{Exec, Out};
use crate::gen::*;
use crate::pb::verif::{verif_client::VerifClient, verif_server::VerifServer};
use crate::pb::Msg;
use crate::prng::Rng;
use crate::svc::*;
use serde_json::json;

pub fn gen_msg(rng: &mut Rng, i: usize) -> Msg {
    // now and then a message larger than two default yield thresholds and one HTTP/2 window
    let size = if rng.chance(1, 30) { *rng.pick(&[70_000usize, 140_000]) } else { *rng.pick(&[0usize, 0, 1, 3, 5, 17, 100, 1000, 5000]) };
    Msg { data: rng.payload(size), seq: if rng.chance(1, 6) { 0 } else { i as u64 + 1 }, tag: if rng.chance(1, 4) { rng.unicode(6) } else { String::new() } }
}

pub fn gen_script(rng: &mut Rng, shape: Shape, timed: bool) -> Script {
    let streaming_resp = matches!(shape, Shape::ServerStream | Shape::Bidi);
    let k = if streaming_resp { match rng.below(5) { 0 => 0, 1 => 1, _ => rng.urange(2, 6) } } else { 1 };
    let msgs: Vec<Msg> = (0..k).map(|i| gen_msg(rng, i)).collect();
    let end = if rng.chance(2, 5) { Some(gen_status(rng)) } else { None };
    let fail_up_front = end.is_some() && streaming_resp && rng.chance(1, 3);
    Script {
        initial_md: gen_meta(rng, 4, false),
        pend: (0..k.max(1)).map(|_| rng.below(3) as u8).collect(),
        gaps_ms: if timed { (0..k).map(|_| rng.below(20)).collect() } else { vec![] },
        latency_ms: if timed { rng.below(30) } else { 0 },
        end_gap_ms: if timed { rng.below(10) } else { 0 },
        msgs,
        end,
        fail_up_front,
        reads_before: vec![],
        disable_compression: false,
        after_err: if streaming_resp && rng.chance(1, 2) { rng.urange(1, 3) as u8 } else { 0 },
    }
}

pub fn gen_call(rng: &mut Rng, id: String, shape: Shape, script: &mut Script) -> CallSpec {
    let streaming_req = matches!(shape, Shape::ClientStream | Shape::Bidi);
    let n = if streaming_req { match rng.below(5) { 0 => 0, 1 => 1, _ => rng.urange(2, 6) } } else { 1 };
    let req_msgs: Vec<Msg> = (0..n).map(|i| gen_msg(rng, 100 + i)).collect();
    if shape == Shape::Bidi {
        // interleave: read some requests before each response message
        let mut left = n;
        script.reads_before = (0..script.msgs.len())
            .map(|_| {
                let r = if left == 0 { 0 } else { rng.usize_below(left.min(2) + 1) };
                left -= r;
                r
            })
            .collect();
    }
    // an interactive caller: reply i answers request i, request i+1 is sent only after reply i was read
    let mut pingpong = None;
    if shape == Shape::Bidi && n >= 1 && !script.msgs.is_empty() && rng.chance(1, 3) {
        script.reads_before = (0..script.msgs.len()).map(|i| if i < n { 1 } else { 0 }).collect();
        pingpong = Some(script.msgs.len());
    }
    CallSpec { id, shape, req_msgs, req_meta: gen_meta(rng, 4, false), req_pend: (0..n + 1).map(|_| rng.below(3) as u8).collect(), req_gaps_ms: vec![], timeout: None, pingpong }
}

pub fn script_json(s: &Script) -> serde_json::Value {
    json!({"initial_md": meta_json(&s.initial_md), "msg_sizes": s.msgs.iter().map(|m| m.data.len()).collect::<Vec<_>>(), "end": s.end.as_ref().map(|e| e.json()),
        "fail_up_front": s.fail_up_front, "reads_before": s.reads_before, "pend": s.pend, "stream_would_continue_after_error_with": s.after_err})
}

pub fn run(cfg: &RunCfg) -> Ctx {
    let mut all = Ctx::new();
    all.merge(par_cases(cfg, "loopback", cfg.n(12_000, 16 * 50_000), || (), |_, rng, ctx, i| loop_case(rng, ctx, i)));
    all.merge(par_cases(cfg, "h2", cfg.n(500, 16 * 800), || (), |_, rng, ctx, _| h2_case(rng, ctx)));
    all.floor("h2.calls_judged", 50);
    all.floor("h2.small_windows", 5);
    for sh in SHAPES {
        all.floor(&format!("shape.{:?}.ok", sh), 5);
        all.floor(&format!("shape.{:?}.err", sh), 5);
    }
    all.floor("class.error_before_first_message", 5);
    all.floor("class.error_after_last_message", 5);
    all.floor("class.trailers_only", 5);
    all.floor("transport.splits", 100);
    all.floor("call.interactive_pingpong", 20);
    all.floor("transport.merges", 20);
    all.floor("cfg.server_compresses", 20);
    all.floor("cfg.client_compresses", 20);
    all.floor("cfg.empty_message_under_compression", 3);
    all.floor("cfg.response_reset_before_trailers", 20);
    if !crate::ctx::small() {
        all.floor("cfg.message_over_default_limit", 3);
    }
    all
}

fn loop_case(rng: &mut Rng, ctx: &mut Ctx, idx: u64) {
    let shape = *rng.pick(&SHAPES);
    let mut script = gen_script(rng, shape, false);
    let mut spec = gen_call(rng, format!("c{}", idx), shape, &mut script);
    if spec.pingpong.is_some() {
        ctx.count("call.interactive_pingpong");
    }
    let mut max_piece = *rng.pick(&[1usize, 3, 7, 64, 4096, 1 << 20]);
    // a few calls carry a message above the 4 MiB default receive limit, with the receiving side
    // configured to take it; most of those go through a clone of the configured client
    let big = !crate::ctx::small() && rng.chance(1, 700);
    let mut big_resp = false;
    // ... or the limits stay at their 4 MiB default and the message travels compressed: what counts
    // is its length on the wire
    let big_compressed = big && rng.bool();
    if big {
        max_piece = 1 << 20;
        let n = 4 * 1024 * 1024 + rng.urange(1, 3000);
        if rng.bool() && !script.msgs.is_empty() && script.end.is_none() {
            script.msgs[0].data = vec![0xb1; n];
            big_resp = true;
        } else if let Some(m) = spec.req_msgs.first_mut() {
            m.data = vec![0xb2; n];
        }
        ctx.count("cfg.message_over_default_limit");
    }
    // the response stream is reset (CANCELLED body error) before its trailers: never a success
    let reset_after = if !big && rng.chance(1, 12) { Some(rng.urange(0, 3)) } else { None };
    let case_json = json!({"shape": format!("{:?}", shape), "script": script_json(&script), "request_msgs": spec.req_msgs.len(), "request_meta": meta_json(&spec.req_meta), "max_piece": max_piece});
    let outcome = if script.end.is_some() { "err" } else { "ok" };
    ctx.begin(&format!("{:?}-{}", shape, outcome), case_json.clone());
    ctx.count(&format!("shape.{:?}.{}", shape, outcome));
    let streaming_resp = matches!(shape, Shape::ServerStream | Shape::Bidi);
    if let Some(_) = &script.end {
        if streaming_resp && !script.fail_up_front && script.msgs.is_empty() {
            ctx.count("class.error_before_first_message");
        }
        if streaming_resp && !script.fail_up_front && !script.msgs.is_empty() {
            ctx.count("class.error_after_last_message");
        }
        if !streaming_resp || script.fail_up_front {
            ctx.count("class.trailers_only");
        }
    }
    let handler = Handler::new();
    handler.set_script(&spec.id, script.clone());
    // compression negotiated in either direction must be invisible at the API
    let c_send = if rng.chance(1, 3) || big_compressed { Some(*rng.pick(crate::refc::Enc::compressed())) } else { None };
    let s_send = if rng.chance(1, 3) || big_compressed { Some(*rng.pick(crate::refc::Enc::compressed())) } else { None };
    if big_compressed {
        ctx.count("cfg.big_message_compressed_under_default_limit");
    }
    let mut server = VerifServer::new(handler.clone());
    for e in crate::refc::Enc::compressed() {
        server = server.accept_compressed(e.tonic().unwrap());
    }
    if let Some(e) = s_send {
        server = server.send_compressed(e.tonic().unwrap());
        ctx.count("cfg.server_compresses");
    }
    if big && !big_compressed {
        server = server.max_decoding_message_size(6 * 1024 * 1024);
    }
    let mut lb = Loopback::new(server, rng.u64(), max_piece);
    lb.probe_after_end = true;
    lb.reset_response_after = reset_after;
    let stats = lb.stats.clone();
    let resp_head_tap = lb.resp_tap.clone();
    let mut client = VerifClient::new(lb);
    for e in crate::refc::Enc::compressed() {
        client = client.accept_compressed(e.tonic().unwrap());
    }
    if let Some(e) = c_send {
        client = client.send_compressed(e.tonic().unwrap());
        ctx.count("cfg.client_compresses");
    }
    if script.msgs.iter().chain(spec.req_msgs.iter()).any(|m| m.data.is_empty() && m.seq == 0 && m.tag.is_empty()) && (c_send.is_some() || s_send.is_some()) {
        ctx.count("cfg.empty_message_under_compression");
    }
    if big {
        if !big_compressed {
            client = client.max_decoding_message_size(6 * 1024 * 1024);
        }
        if rng.chance(2, 3) {
            client = client.clone();
            ctx.count("cfg.cloned_client");
        }
        let _ = big_resp;
    }
    let mut ex = Exec::new();
    let view = match ex.block_on(200_000, do_call(&mut client, &spec, None)) {
        Out::Done(v) => v,
        Out::Stalled => {
            ctx.violation("hang", "the call returned Pending with no wake-up (would hang)".into());
            return;
        }
        Out::Budget => {
            ctx.violation("poll-budget", "the call did not complete within 200000 polls".into());
            return;
        }
    };
    use std::sync::atomic::Ordering::Relaxed;
    if reset_after.is_some() {
        // the handler's outcome never arrived: whatever was seen is a prefix and the call is an error
        ctx.count("cfg.response_reset_before_trailers");
        let want: Vec<Msg> = if streaming_resp { script.msgs.clone() } else { script.msgs.iter().take(1).cloned().collect() };
        if !view.finished {
            ctx.violation("call-open", "the call never completed after the response stream was reset".into());
        } else if view.msgs.len() > want.len() || view.msgs.iter().zip(&want).any(|(a, b)| a != b) {
            ctx.violation("messages-differ", format!("client saw {} messages that are not a prefix of the handler's {}", view.msgs.len(), want.len()));
        }
        // trailers-only responses carry their status in the head: the reset changes nothing there
        // (whether a response is trailers-only is the server's choice, so it is read off the wire)
        let trailers_only = resp_head_tap.lock().unwrap().first().map(|p| p.headers.contains_key("grpc-status")).unwrap_or(false);
        let ended_ok = view.call_err.is_none() && matches!(view.end, Some(Ok(())));
        if view.finished && ended_ok && !trailers_only {
            ctx.violation("success-without-outcome", format!("the response stream was reset after {} DATA frame(s), before any status arrived, and the client reports success ({} messages)", reset_after.unwrap(), view.msgs.len()));
        }
        ctx.fingerprint(format!("loop|{:?}|reset{}", shape, reset_after.unwrap()), true);
        ctx.sample(case_json);
        return;
    }
    for (d, what) in judge_call(shape, &script, &view) {
        ctx.violation(&d, what);
    }
    for (d, what) in judge_request(&spec, &script, &handler.log(&spec.id)) {
        ctx.violation(&d, what);
    }
    if stats.after_end_frames.load(Relaxed) > 0 {
        ctx.violation("frames-after-outcome", format!("{} frame(s) came out of a body after its trailers / after its end (the handler's stream would have continued after its error with {} item(s))", stats.after_end_frames.load(Relaxed), script.after_err));
    }
    ctx.add("transport.splits", stats.splits.load(Relaxed));
    ctx.add("transport.merges", stats.merges.load(Relaxed));
    ctx.add("transport.pendings", stats.pendings.load(Relaxed));
    ctx.add("observed.client_messages", view.msgs.len() as u64);
    ctx.add("observed.handler_request_messages", handler.log(&spec.id).req_msgs.len() as u64);
    ctx.fingerprint(
        format!("lb|{:?}|k{}|{}|upfront{}|n{}|md{}|piece{}", shape, script.msgs.len().min(3), match &script.end { None => "ok".to_string(), Some(s) => format!("e{}", s.code) }, script.fail_up_front as u8, spec.req_msgs.len().min(3), script.initial_md.len().min(2), max_piece),
        script.end.is_some() || script.msgs.len() >= 2 || spec.req_msgs.len() >= 2,
    );
    ctx.sample(case_json);
}

/// Real Endpoint/Channel <-> real Server over fragmenting in-memory pipes with tiny HTTP/2 windows on
/// a paused clock: hyper/h2 now cut DATA frames wherever the windows force them to.
fn h2_case(rng: &mut Rng, ctx: &mut Ctx) {
    use crate::props::c13::{gen_scenario, run_scenario, scenario_json};
    let sc = gen_scenario(rng, false);
    let case_json = scenario_json(&sc);
    ctx.begin("h2-scenario", case_json.clone());
    if sc.server_window.is_some() || sc.client_window.is_some() {
        ctx.count("h2.small_windows");
    }
    let out = run_scenario(&sc);
    for (i, c) in sc.calls.iter().enumerate() {
        let outcome = if c.script.end.is_some() { "err" } else { "ok" };
        ctx.set_class(&format!("{:?}-{}", c.shape, outcome));
        ctx.count(&format!("shape.{:?}.{}", c.shape, outcome));
        match &out.views[i] {
            None => ctx.violation("call-open", format!("call {} ({:?}) did not complete within 3600 virtual seconds", c.id, c.shape)),
            Some(v) => {
                for (d, what) in judge_call(c.shape, &c.script, v) {
                    ctx.violation(&d, format!("[h2] call {}: {}", c.id, what));
                }
                for (d, what) in judge_request(&sc.specs[i], &c.script, &out.logs[i]) {
                    ctx.violation(&d, format!("[h2] call {}: {}", c.id, what));
                }
                ctx.count("h2.calls_judged");
            }
        }
    }
    let order: String = out.events.iter().filter(|e| e.kind != "handler_msg" && e.kind != "client_msg").map(|e| format!("{}:{};", e.kind, e.id)).collect();
    ctx.distinct("h2_event_orders", &order);
    ctx.add("transport.h2_pipe_reads", out.pipe_stats.0);
    ctx.add("transport.h2_injected_pendings", out.pipe_stats.2);
    ctx.add("transport.h2_bytes", out.pipe_stats.3);
    ctx.fingerprint(
        format!("h2|conns{}|calls{}|sw{:?}|cw{:?}|pipe{}x{}", sc.conns, sc.calls.len().min(4), sc.server_window.map(|w| w.min(100)), sc.client_window.map(|w| w.min(100)), sc.pipe_cfg.max_read.min(100), sc.pipe_cfg.max_write.min(100)),
        sc.calls.len() >= 2 || sc.server_window.is_some(),
    );
    ctx.sample(case_json);
}
