//! C13 — graceful shutdown loses no accepted call.  Also hosts the generic "real Endpoint <-> real
//! Server over fragmenting pipes on a paused clock" scenario runner reused by C02's h2 monitor.
use crate::ctx::*;
use crate::pb::verif::{verif_client::VerifClient, verif_server::VerifServer};
use crate::prng::Rng;
use crate::props::c02::{gen_call, gen_script, script_json};
use crate::svc::*;
use crate::transport::*;
use hyper_util::rt::TokioIo;
use serde_json::json;
use std::sync::atomic::{AtomicU64, Ordering};
use std::sync::{Arc, Mutex};
use std::time::Duration;
use tokio::sync::mpsc;
use tonic::transport::{Endpoint, Server};

/// Incoming stream that logs when the server takes a connection.
pub struct LoggedIncoming {
    rx: mpsc::UnboundedReceiver<PipeEnd>,
    log: EventLog,
    pub taken: Arc<AtomicU64>,
    /// scripted listener faults: `false` = one accept error (EMFILE-like), `true` = the listener ends
    faults: mpsc::UnboundedReceiver<bool>,
    ended: bool,
}
impl tokio_stream::Stream for LoggedIncoming {
    type Item = Result<PipeEnd, std::io::Error>;
    fn poll_next(mut self: std::pin::Pin<&mut Self>, cx: &mut std::task::Context<'_>) -> std::task::Poll<Option<Self::Item>> {
        if self.ended {
            return std::task::Poll::Ready(None);
        }
        match self.faults.poll_recv(cx) {
            std::task::Poll::Ready(Some(false)) => {
                self.log.push("listener_error", "", "");
                return std::task::Poll::Ready(Some(Err(std::io::Error::other("verif: scripted accept failure (too many open files)"))));
            }
            std::task::Poll::Ready(Some(true)) => {
                // the listener is gone: connections still queued are dropped unserved, later
                // offers are refused
                self.log.push("listener_ended", "", "");
                self.ended = true;
                self.rx.close();
                while let Ok(p) = self.rx.try_recv() {
                    drop(p);
                }
                return std::task::Poll::Ready(None);
            }
            _ => {}
        }
        match self.rx.poll_recv(cx) {
            std::task::Poll::Ready(Some(p)) => {
                self.log.push("conn_taken", &p.id, "");
                self.taken.fetch_add(1, Ordering::SeqCst);
                std::task::Poll::Ready(Some(Ok(p)))
            }
            std::task::Poll::Ready(None) => std::task::Poll::Ready(None),
            std::task::Poll::Pending => std::task::Poll::Pending,
        }
    }
}
impl Drop for LoggedIncoming {
    fn drop(&mut self) {
        self.log.push("incoming_dropped", "", "");
    }
}

#[derive(Clone, Debug)]
pub enum Signal {
    Never,
    At(u64),
    /// fire in the same accept-loop iteration that takes the k-th connection (k from 1)
    WhenTaken(u64),
}

#[derive(Clone, Debug)]
pub struct PlannedCall {
    pub conn: usize,
    pub start_ms: u64,
    pub shape: Shape,
    pub script: Script,
    pub id: String,
}

pub struct Scenario {
    pub conns: usize,
    pub lazy: Vec<bool>,
    pub conn_start_ms: Vec<u64>,
    pub calls: Vec<PlannedCall>,
    pub specs: Vec<CallSpec>,
    pub signal: Signal,
    pub keep_clients: bool,
    pub pipe_cfg: PipeCfg,
    pub server_window: Option<u32>,
    pub client_window: Option<u32>,
    pub max_frame: Option<u32>,
    pub seed: u64,
    pub server_timeout: Option<Duration>,
    pub endpoint_timeout: Option<Duration>,
    /// `Server::max_connection_age`: connections older than this are told to go away while their
    /// calls finish; must change nothing about what shutdown promises
    pub max_connection_age: Option<Duration>,
    /// rarely used knobs that must not change what the application observes: bit 0 server
    /// `concurrency_limit_per_connection`, (1 unused), 2 server HTTP/2
    /// keep-alive pings, 3 client `concurrency_limit`, 4 client `rate_limit`, 5 client keep-alive
    pub opts: u32,
    /// (virtual ms, ends): accept errors yielded by the listener, or the listener ending by itself
    pub listener_faults: Vec<(u64, bool)>,
}

pub struct ScenarioOut {
    pub events: Vec<Event>,
    pub views: Vec<Option<ClientView>>,
    pub logs: Vec<CallLog>,
    pub serve_resolved: bool,
    pub serve_err: Option<String>,
    pub pipe_stats: (u64, u64, u64, u64),
}

pub fn run_scenario(sc: &Scenario) -> ScenarioOut {
    let rt = paused_rt();
    let out = rt.block_on(async {
        let log = EventLog::new();
        log.start_clock();
        let handler = Handler::new();
        let mut h = handler.clone();
        h.events = log.clone();
        for c in &sc.calls {
            h.set_script(&c.id, c.script.clone());
        }
        let (conn_tx, conn_rx) = mpsc::unbounded_channel::<PipeEnd>();
        let taken = Arc::new(AtomicU64::new(0));
        let (fault_tx, fault_rx) = mpsc::unbounded_channel::<bool>();
        let incoming = LoggedIncoming { rx: conn_rx, log: log.clone(), taken: taken.clone(), faults: fault_rx, ended: false };
        let mut fl = sc.listener_faults.clone();
        fl.sort();
        let _fault_task = tokio::spawn(async move {
            let mut now = 0u64;
            for (t, end) in fl {
                tokio::time::sleep(Duration::from_millis(t.saturating_sub(now))).await;
                now = now.max(t);
                if fault_tx.send(end).is_err() {
                    break;
                }
            }
            // keep the sender alive: a closed fault channel must not look like anything
            std::future::pending::<()>().await;
        });
        let knob = 1 + (sc.seed % 3) as usize;
        macro_rules! settings {
            ($sb:ident) => {
                if let Some(w) = sc.server_window {
                    $sb = $sb.initial_stream_window_size(Some(w));
                }
                if let Some(f) = sc.max_frame {
                    $sb = $sb.max_frame_size(Some(f));
                }
                if let Some(t) = sc.server_timeout {
                    $sb = $sb.timeout(t);
                }
                if let Some(a) = sc.max_connection_age {
                    $sb = $sb.max_connection_age(a);
                }
                if sc.opts & 1 != 0 {
                    $sb = $sb.concurrency_limit_per_connection(knob);
                }
                // (bit 1, `max_concurrent_streams`, is not used: a client that opens streams before the
                // server's SETTINGS arrive gets REFUSED_STREAM for the surplus - HTTP/2 behaviour, retriable,
                // and nothing a handler produced)
                if sc.opts & 4 != 0 {
                    $sb = $sb.http2_keepalive_interval(Some(Duration::from_millis(15))).http2_keepalive_timeout(Some(Duration::from_millis(20)));
                }
            };
        }
        // a (no-op) tower layer is added either before or after the other builder calls: the
        // builder must carry every setting across `layer`
        let mut sb = if (sc.seed >> 5) % 2 == 0 {
            let mut b = Server::builder().layer(tower::layer::util::Identity::new());
            settings!(b);
            b
        } else {
            let mut b = Server::builder();
            settings!(b);
            b.layer(tower::layer::util::Identity::new())
        };
        let router = sb.add_service(VerifServer::new(h.clone()));
        let slog = log.clone();
        let signal = sc.signal.clone();
        let taken2 = taken.clone();
        let server = tokio::spawn(async move {
            let r = match signal {
                Signal::Never => router.serve_with_incoming(incoming).await,
                Signal::At(t) => {
                    let l2 = slog.clone();
                    router
                        .serve_with_incoming_shutdown(incoming, async move {
                            tokio::time::sleep(Duration::from_millis(t)).await;
                            l2.push("signal_fired", "", format!("at {}", t));
                        })
                        .await
                }
                Signal::WhenTaken(k) => {
                    let l2 = slog.clone();
                    router
                        .serve_with_incoming_shutdown(
                            incoming,
                            std::future::poll_fn(move |_cx| {
                                // polled by the accept loop on every iteration: no waker needed
                                if taken2.load(Ordering::SeqCst) >= k {
                                    l2.push("signal_fired", "", format!("when-taken {}", k));
                                    std::task::Poll::Ready(())
                                } else {
                                    std::task::Poll::Pending
                                }
                            }),
                        )
                        .await
                }
            };
            slog.push("serve_resolved", "", if r.is_ok() { "ok" } else { "err" });
            r.map_err(|e| e.to_string())
        });

        // channels
        let pipes: Arc<Mutex<Vec<PipeHandle>>> = Arc::new(Mutex::new(Vec::new()));
        let mut channels = Vec::new();
        let pipe_no = Arc::new(AtomicU64::new(0));
        for ci in 0..sc.conns {
            let tx = conn_tx.clone();
            let l2 = log.clone();
            let pcfg = sc.pipe_cfg;
            let seed = sc.seed;
            let pn = pipe_no.clone();
            let pipes2 = pipes.clone();
            let connector = tower::service_fn(move |_uri: http::Uri| {
                let tx = tx.clone();
                let l2 = l2.clone();
                let pn = pn.clone();
                let pipes2 = pipes2.clone();
                async move {
                    let n = pn.fetch_add(1, Ordering::SeqCst);
                    if n > 3000 {
                        // a reconnect storm: refuse, so that the scenario ends (the calls then fail
                        // and are judged as such) instead of eating the machine's memory
                        l2.push("reconnect_storm", "", "");
                        return Err(std::io::Error::other("verif: connector invoked more than 3000 times in one scenario"));
                    }
                    let id = format!("conn{}.{}", ci, n);
                    let (a, b, hnd) = pipe(&id, pcfg, Rng::new(seed ^ (n + 1) * 7919), Some(l2.clone()));
                    pipes2.lock().unwrap().push(hnd);
                    l2.push("conn_offered", &id, "");
                    if tx.send(b).is_err() {
                        return Err(std::io::Error::new(std::io::ErrorKind::ConnectionRefused, "listener gone"));
                    }
                    Ok::<_, std::io::Error>(TokioIo::new(a))
                }
            });
            let mut ep = Endpoint::from_static("http://verif.test:50051");
            if let Some(w) = sc.client_window {
                ep = ep.initial_stream_window_size(Some(w));
            }
            if let Some(t) = sc.endpoint_timeout {
                ep = ep.timeout(t);
            }
            if sc.opts & 8 != 0 {
                ep = ep.concurrency_limit(knob);
            }
            if sc.opts & 16 != 0 {
                ep = ep.rate_limit(4, Duration::from_millis(5));
            }
            if sc.opts & 32 != 0 {
                ep = ep.http2_keep_alive_interval(Duration::from_millis(15)).keep_alive_timeout(Duration::from_secs(5)).keep_alive_while_idle(true);
            }
            if !sc.lazy[ci] {
                // A server window below the HTTP/2 default must be known to the client before it
                // sends data: h2 stalls forever when SETTINGS_INITIAL_WINDOW_SIZE is lowered below
                // the bytes already in flight (dependency behaviour, not tonic's; see DESIGN.md).
                match ep.connect_with_connector(connector.clone()).await {
                    Ok(ch) => channels.push(ch),
                    // the listener already stopped (signal at t=0): calls on it are post-signal anyway
                    Err(_) => channels.push(ep.connect_with_connector_lazy(connector)),
                }
            } else {
                channels.push(ep.connect_with_connector_lazy(connector));
            }
        }
        if sc.server_window.is_some() {
            quiesce().await;
        }
        // keep one sender alive for the whole scenario: a listener that ends by itself would make
        // serve return without any signal (legitimate, but not what is under test)
        let _listener_guard = conn_tx;

        // calls
        let mut tasks = Vec::new();
        for (i, c) in sc.calls.iter().enumerate() {
            let ch = channels[c.conn].clone();
            let l2 = log.clone();
            let start = c.start_ms;
            let spec = CallSpec {
                id: sc.specs[i].id.clone(),
                shape: sc.specs[i].shape,
                req_msgs: sc.specs[i].req_msgs.clone(),
                req_meta: sc.specs[i].req_meta.clone(),
                req_pend: sc.specs[i].req_pend.clone(),
                req_gaps_ms: sc.specs[i].req_gaps_ms.clone(),
                timeout: sc.specs[i].timeout,
                pingpong: sc.specs[i].pingpong,
            };
            tasks.push(tokio::spawn(async move {
                tokio::time::sleep(Duration::from_millis(start)).await;
                let mut client = VerifClient::new(ch);
                tokio::time::timeout(Duration::from_secs(3600), do_call(&mut client, &spec, Some(&l2))).await.ok()
            }));
        }
        let mut views = Vec::new();
        for t in tasks {
            views.push(t.await.ok().flatten());
        }
        log.push("all_calls_done", "", "");
        if std::env::var("VERIF_DUMP").is_ok() {
            for p in pipes.lock().unwrap().iter() {
                println!("  pipe {}", p.debug());
                if std::env::var("VERIF_DUMP_H2").is_ok() {
                    for side in 0..2 {
                        for f in p.h2_frames(side) {
                            println!("     {} {}", if side == 0 { "C>" } else { "S>" }, f);
                        }
                    }
                }
            }
        }
        if !sc.keep_clients {
            channels.clear();
        }
        let (serve_resolved, serve_err) = match sc.signal {
            Signal::Never => {
                server.abort();
                (false, None)
            }
            _ => match tokio::time::timeout(Duration::from_secs(3600), server).await {
                Ok(Ok(Ok(()))) => (true, None),
                Ok(Ok(Err(e))) => (true, Some(e)),
                Ok(Err(e)) => (false, Some(format!("server task: {}", e))),
                Err(_) => (false, None),
            },
        };
        drop(channels);
        quiesce().await;
        let logs = sc.calls.iter().map(|c| h.log(&c.id)).collect();
        let mut st = (0, 0, 0, 0);
        for p in pipes.lock().unwrap().iter() {
            let s = p.stats();
            st = (st.0 + s.0, st.1 + s.1, st.2 + s.2, st.3 + s.3);
        }
        ScenarioOut { events: log.snapshot(), views, logs, serve_resolved, serve_err, pipe_stats: st }
    });
    drop(rt);
    out
}

pub fn gen_scenario(rng: &mut Rng, with_signal: bool) -> Scenario {
    let conns = rng.urange(1, 3);
    let n = rng.urange(1, 6);
    let mut calls = Vec::new();
    let mut specs = Vec::new();
    let mut instants: Vec<u64> = vec![0];
    for i in 0..n {
        let shape = *rng.pick(&[Shape::Unary, Shape::ServerStream, Shape::Bidi, Shape::ClientStream, Shape::ServerStream]);
        let mut script = gen_script(rng, shape, true);
        let id = format!("k{}", i);
        let mut spec = gen_call(rng, id.clone(), shape, &mut script);
        if matches!(shape, Shape::ClientStream | Shape::Bidi) && rng.bool() {
            spec.req_gaps_ms = (0..spec.req_msgs.len()).map(|_| rng.below(15)).collect();
        }
        let start = rng.below(60);
        // phase instants of this call (approximate: transport adds no virtual time)
        let mut t = start;
        instants.push(t);
        t += script.latency_ms;
        instants.push(t);
        for g in &script.gaps_ms {
            t += g;
            instants.push(t);
        }
        t += script.end_gap_ms;
        instants.push(t);
        calls.push(PlannedCall { conn: rng.usize_below(conns), start_ms: start, shape, script, id });
        specs.push(spec);
    }
    let used: std::collections::BTreeSet<usize> = calls.iter().map(|c: &PlannedCall| c.conn).collect();
    let signal = if !with_signal {
        Signal::Never
    } else if rng.chance(1, 6) {
        // only connections that carry a call are ever opened (lazily)
        Signal::WhenTaken(rng.range(1, used.len() as u64))
    } else {
        let base = *rng.pick(&instants);
        let t = match rng.below(4) {
            0 => base.saturating_sub(1),
            1 => base + 1,
            _ => base,
        };
        Signal::At(t)
    };
    // optional post-signal activity: an extra call on a fresh connection and/or on an old one
    let sig_t = match signal {
        Signal::At(t) => Some(t),
        _ => None,
    };
    let mut conns_total = conns;
    if let (true, Some(t)) = (with_signal && rng.chance(1, 3), sig_t) {
        let shape = Shape::Unary;
        let mut script = gen_script(rng, shape, true);
        let id = format!("post{}", calls.len());
        let spec = gen_call(rng, id.clone(), shape, &mut script);
        let fresh = rng.bool();
        let conn = if fresh {
            conns_total += 1;
            conns_total - 1
        } else {
            rng.usize_below(conns)
        };
        calls.push(PlannedCall { conn, start_ms: t + rng.below(3), shape, script, id });
        specs.push(spec);
    }
    // a configured request timeout longer than every handler future must change nothing (streams
    // legitimately outlive it); request gaps are removed so no handler future can reach it
    let server_timeout = if with_signal && rng.chance(1, 4) {
        for sp in specs.iter_mut() {
            sp.req_gaps_ms.clear();
        }
        Some(Duration::from_millis(40))
    } else {
        None
    };
    let small = rng.bool();
    let server_window = if small && !matches!(signal, Signal::WhenTaken(_)) { Some(*rng.pick(&[1u32, 7, 9, 64, 1000])) } else { None };
    // connections that carry pre-planned calls are established up front when the server window is
    // lowered; a post-signal "fresh" connection always arrives lazily
    let mut lazy = vec![server_window.is_none(); conns];
    lazy.resize(conns_total, true);
    Scenario {
        conns: conns_total,
        lazy,
        conn_start_ms: vec![0; conns_total],
        calls,
        specs,
        signal,
        keep_clients: rng.bool(),
        pipe_cfg: PipeCfg::gen(rng),
        server_window,
        client_window: if small { Some(*rng.pick(&[1u32, 7, 9, 64, 1000])) } else { None },
        max_frame: if rng.chance(1, 3) { Some(16384) } else { None },
        seed: rng.u64(),
        server_timeout,
        endpoint_timeout: None,
        // only with default windows: an aged-out connection is replaced by a lazily established one,
        // and lazily established connections to a server with a lowered window run into the h2
        // stall described in DESIGN.md section 6
        opts: if server_window.is_none() && rng.chance(1, 3) { rng.below(64) as u32 } else { 0 },
        listener_faults: if with_signal && rng.chance(1, 4) {
            let mut v: Vec<(u64, bool)> = (0..rng.urange(1, 3)).map(|_| (rng.below(70), false)).collect();
            if rng.chance(1, 3) {
                v.push((rng.below(70), true));
            }
            v
        } else {
            Vec::new()
        },
        max_connection_age: if with_signal && server_window.is_none() && rng.chance(1, 3) { Some(Duration::from_millis(*rng.pick(&[3u64, 10, 25, 60]))) } else { None },
    }
}

pub fn scenario_json(sc: &Scenario) -> serde_json::Value {
    json!({"conns": sc.conns, "signal": format!("{:?}", sc.signal), "keep_clients": sc.keep_clients, "pipe": format!("{:?}", sc.pipe_cfg),
        "server_window": sc.server_window, "client_window": sc.client_window, "server_timeout_ms": sc.server_timeout.map(|d| d.as_millis() as u64), "max_connection_age_ms": sc.max_connection_age.map(|d| d.as_millis() as u64), "option_mask": sc.opts, "listener_faults": sc.listener_faults.iter().map(|(t, e)| json!([t, if *e { "ends" } else { "accept-error" }])).collect::<Vec<_>>(),
        "calls": sc.calls.iter().map(|c| json!({"id": c.id, "conn": c.conn, "start_ms": c.start_ms, "shape": format!("{:?}", c.shape), "script": script_json(&c.script),
            "latency_ms": c.script.latency_ms, "gaps_ms": c.script.gaps_ms, "end_gap_ms": c.script.end_gap_ms})).collect::<Vec<_>>()})
}

pub fn run(cfg: &RunCfg) -> Ctx {
    let mut all = Ctx::new();
    all.merge(par_cases(cfg, "shutdown", cfg.n(1200, 16 * 2500), || (), |_, rng, ctx, _| case(rng, ctx)));
    // a TLS server, several peers, one transport connection that never begins its handshake
    all.merge(par_cases(cfg, "tls-shutdown", cfg.n(40, 16 * 300), || (), |_, rng, ctx, _| crate::props::c15::peers_case(rng, ctx, true)));
    all.floor("peers.shutdown_with_silent_connection", 10);
    for k in ["phase.pre-headers", "phase.mid-stream", "phase.done", "phase.not-started", "scen.no_call_in_flight", "scen.post_signal_call", "scen.signal_with_accept", "scen.kept_idle_clients", "scen.server_timeout_configured", "scen.max_connection_age_configured", "scen.rare_options_set", "scen.accept_errors", "scen.listener_ends_by_itself", "observed.accepted_calls_completed"] {
        all.floor(k, 3);
    }
    all
}

fn case(rng: &mut Rng, ctx: &mut Ctx) {
    let mut sc = gen_scenario(rng, true);
    if let Ok(v) = std::env::var("VERIF_DBG_SIGNAL") {
        // debugging aid for replays only
        sc.signal = if v == "never" { Signal::Never } else { Signal::At(v.parse().unwrap()) };
    }
    if std::env::var("VERIF_DBG_PLAINPIPE").is_ok() {
        sc.pipe_cfg = PipeCfg::plain();
    }
    if let Ok(v) = std::env::var("VERIF_DBG_PIPE") {
        let x: Vec<usize> = v.split(',').map(|t| t.parse().unwrap()).collect();
        sc.pipe_cfg = PipeCfg { max_read: x[0], max_write: x[1], pend_num: x[2] as u64, pend_den: 4, capacity: x[3], flush_gated: x.get(4).copied().unwrap_or(0) != 0 };
    }
    if let Ok(v) = std::env::var("VERIF_DBG_WINDOWS") {
        let x: Vec<u32> = v.split(',').map(|t| t.parse().unwrap()).collect();
        sc.server_window = if x[0] == 0 { None } else { Some(x[0]) };
        sc.client_window = if x[1] == 0 { None } else { Some(x[1]) };
    }
    if std::env::var("VERIF_DBG_NOWINDOW").is_ok() {
        sc.server_window = None;
        sc.client_window = None;
    }
    let case_json = scenario_json(&sc);
    ctx.begin("scenario", case_json.clone());
    let out = run_scenario(&sc);
    let ev = &out.events;
    if std::env::var("VERIF_DUMP").is_ok() {
        for e in ev {
            println!("  [{:>4}] t={:>6}ms {:<18} {:<10} {}", e.seq, e.t_ms, e.kind, e.id, e.detail);
        }
        for (i, v) in out.views.iter().enumerate() {
            println!("  view {}: {:?}", sc.calls[i].id, v.as_ref().map(|v| (v.call_err.as_ref().map(|s| (s.code, s.message.clone())), v.msgs.len(), v.end.as_ref().map(|e| e.as_ref().map_err(|s| (s.code, s.message.clone()))))));
        }
    }
    let seq_of = |kind: &str, id: &str| ev.iter().find(|e| e.kind == kind && e.id == id).map(|e| e.seq);
    // the drain starts at the signal, or when the listener ends by itself (whichever comes first):
    // from then on nothing is accepted and serve resolves once the connections have closed
    let fired = ev.iter().find(|e| e.kind == "signal_fired" || e.kind == "listener_ended").map(|e| e.seq);
    let resolved = ev.iter().find(|e| e.kind == "serve_resolved").map(|e| e.seq);
    if let Some(e) = &out.serve_err {
        ctx.violation("serve-error", format!("serve returned an error: {}", e));
    }
    let Some(fired) = fired else {
        // signal never polled Ready: serve cannot have resolved legitimately
        if resolved.is_some() {
            ctx.violation("resolved-without-signal", "serve resolved although the signal never fired".into());
        } else {
            ctx.violation_class("signal-not-fired", "harness", "verif-harness: signal never fired within the scenario".into());
        }
        return;
    };
    // (1) accepted calls complete with the true outcome
    let mut phases: Vec<&str> = Vec::new();
    let mut in_flight = 0;
    for (i, c) in sc.calls.iter().enumerate() {
        let entered = seq_of("handler_enter", &c.id);
        let accepted = matches!(entered, Some(s) if s < fired);
        let view = &out.views[i];
        let phase = match entered {
            None => "not-started",
            Some(s) if s > fired => "not-started",
            Some(_) => {
                let hdr = seq_of("handler_headers", &c.id).or(seq_of("handler_exit", &c.id));
                let exit = seq_of("handler_exit", &c.id);
                match (hdr, exit) {
                    (_, Some(x)) if x < fired => "done",
                    (Some(h), _) if h < fired => "mid-stream",
                    _ => "pre-headers",
                }
            }
        };
        phases.push(phase);
        ctx.count(&format!("phase.{}", phase));
        if accepted && phase != "done" {
            in_flight += 1;
        }
        match view {
            None => {
                ctx.violation_class("call-open", phase, format!("call {} ({:?}, phase at signal: {}) was still open 3600 virtual seconds later", c.id, c.shape, phase));
            }
            Some(v) => {
                if accepted {
                    let devs = judge_call(c.shape, &c.script, v);
                    for (d, what) in &devs {
                        ctx.violation_class(&format!("accepted-call-{}", d), phase, format!("call {} ({:?}) was accepted before the signal (phase {}) but: {}", c.id, c.shape, phase, what));
                    }
                    for (d, what) in judge_request(&sc.specs[i], &c.script, &out.logs[i]) {
                        ctx.violation_class(&format!("accepted-call-{}", d), phase, format!("call {}: {}", c.id, what));
                    }
                    if devs.is_empty() {
                        ctx.count("observed.accepted_calls_completed");
                    }
                }
            }
        }
        if c.id.starts_with("post") {
            ctx.count("scen.post_signal_call");
        }
    }
    if in_flight == 0 {
        ctx.count("scen.no_call_in_flight");
    }
    if sc.keep_clients {
        ctx.count("scen.kept_idle_clients");
    }
    if sc.max_connection_age.is_some() {
        ctx.count("scen.max_connection_age_configured");
    }
    if sc.opts != 0 {
        ctx.count("scen.rare_options_set");
    }
    if sc.listener_faults.iter().any(|f| !f.1) {
        ctx.count("scen.accept_errors");
    }
    if sc.listener_faults.iter().any(|f| f.1) {
        ctx.count("scen.listener_ends_by_itself");
    }
    if sc.server_timeout.is_some() {
        ctx.count("scen.server_timeout_configured");
    }
    if matches!(sc.signal, Signal::WhenTaken(_)) {
        ctx.count("scen.signal_with_accept");
    }
    // (3) nothing accepted after the signal
    for e in ev.iter().filter(|e| e.kind == "conn_taken") {
        if e.seq > fired {
            ctx.violation("accepted-after-signal", format!("connection {} was taken from the listener after the signal fired", e.id));
        }
    }
    // (4) serve resolves only after every taken connection closed; (5) and does resolve
    match resolved {
        None => {
            ctx.violation_class("serve-not-resolved", if sc.keep_clients { "clients-kept" } else { "clients-dropped" }, "serve did not resolve within 3600 virtual seconds after the last call ended".into());
        }
        Some(r) => {
            for e in ev.iter().filter(|e| e.kind == "conn_taken") {
                match seq_of("conn_closed", &e.id) {
                    Some(c) if c < r => {}
                    Some(_) => ctx.violation("resolved-before-close", format!("serve resolved before connection {} was closed", e.id)),
                    None => ctx.violation("resolved-before-close", format!("serve resolved while connection {} was still open", e.id)),
                }
            }
            // and not before every accepted call finished
            for (i, c) in sc.calls.iter().enumerate() {
                let entered = seq_of("handler_enter", &c.id);
                if matches!(entered, Some(s) if s < fired) && out.views[i].is_some() {
                    if let Some(end) = seq_of("call_end", &c.id) {
                        if end > r && judge_call(c.shape, &c.script, out.views[i].as_ref().unwrap()).is_empty() {
                            // completing correctly after serve resolved is only possible if the connection outlived serve
                            ctx.count("observed.call_end_after_resolve");
                        }
                    }
                }
            }
        }
    }
    ctx.add("observed.events", ev.len() as u64);
    // the interleaving actually produced: order of server-side and client-side events
    let order: String = ev.iter().filter(|e| e.kind != "handler_msg" && e.kind != "client_msg").map(|e| format!("{}:{};", e.kind, e.id)).collect();
    ctx.distinct("event_orders", &order);
    let sig_ctx: String = ev.iter().skip_while(|e| e.kind != "signal_fired").take(4).map(|e| format!("{};", e.kind)).collect();
    ctx.distinct("what_follows_the_signal", &sig_ctx);
    ctx.add("transport.reads", out.pipe_stats.0);
    ctx.add("transport.injected_pendings", out.pipe_stats.2);
    let mut ph = phases.clone();
    ph.sort();
    ctx.fingerprint(format!("{}|conns{}|keep{}|{}", ph.join(","), sc.conns, sc.keep_clients as u8, match sc.signal { Signal::WhenTaken(_) => "accept", _ => "at" }), in_flight > 0);
    ctx.sample(case_json);
}
