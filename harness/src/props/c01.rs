//! C01 — message streams survive encode/decode unchanged under any chunking.
use crate::codec_drv::*;
use crate::ctx::*;
use crate::pb::{Msg, RawDecoder, RawEncoder};
use crate::prng::Rng;
use crate::refc::*;
use crate::script::*;
use serde_json::json;
use tonic::codec::{BufferSettings, ProstCodec};

pub const SIZES: &[usize] = &[0, 0, 1, 1, 2, 4, 5, 6, 7, 63, 64, 65, 100, 255, 256, 1000];
pub const BUF_SIZES: &[usize] = &[0, 1, 5, 6, 64, 1000, 8192, 32768];
pub const YIELDS: &[usize] = &[0, 1, 5, 6, 64, 1000, 8192, 32768, 1 << 20];

pub fn gen_sizes(rng: &mut Rng, bs: usize, yt: usize, max_msgs: usize) -> Vec<usize> {
    if small() {
        let n = rng.urange(0, 3);
        return (0..n).map(|_| *rng.pick(&[0usize, 1, 4, 5, 6, 17, 40])).collect();
    }
    let n = match rng.below(10) {
        0 => 0,
        1 => 1,
        2..=6 => rng.urange(2, 6),
        _ => rng.urange(2, max_msgs),
    };
    (0..n)
        .map(|_| match rng.below(12) {
            0..=6 => *rng.pick(SIZES),
            7 => bs.saturating_sub(5 + rng.usize_below(3)),
            8 => bs + rng.usize_below(3),
            9 => yt.min(40_000).saturating_sub(5 + rng.usize_below(3)),
            10 => yt.min(40_000) + rng.usize_below(3),
            _ => {
                if rng.chance(1, 8) {
                    70 * 1024 + rng.usize_below(100)
                } else {
                    rng.usize_below(3000)
                }
            }
        })
        .collect()
}

/// readiness class: 0 all ready, 1 pending between every item, 2 random, 3 pending only once
pub fn source_steps<T: Clone>(rng: &mut Rng, items: &[T], class: u64) -> Vec<SStep<T>> {
    let mut steps = Vec::new();
    let once_at = if items.is_empty() { 0 } else { rng.usize_below(items.len()) };
    for (i, it) in items.iter().enumerate() {
        match class {
            0 => {}
            1 => steps.push(SStep::Pending),
            2 => {
                while rng.chance(1, 3) {
                    steps.push(SStep::Pending);
                }
            }
            _ => {
                if i == once_at && i > 0 {
                    steps.push(SStep::Pending);
                }
            }
        }
        steps.push(SStep::Item(it.clone()));
    }
    if class == 1 || (class == 2 && rng.bool()) {
        steps.push(SStep::Pending);
    }
    steps
}

fn make_msg(rng: &mut Rng, size: usize, i: usize) -> Msg {
    // split the size budget over the three fields; sometimes all-default (empty payload)
    if size == 0 {
        return Msg::default();
    }
    let tag_len = if rng.chance(1, 3) { size.min(rng.usize_below(9)) } else { 0 };
    Msg {
        data: rng.payload(size - tag_len),
        seq: if rng.bool() { i as u64 + 1 } else { rng.u64() >> rng.below(64) },
        tag: (0..tag_len).map(|_| (b'a' + rng.below(26) as u8) as char).collect(),
    }
}

pub fn run(cfg: &RunCfg) -> Ctx {
    let mut all = Ctx::new();
    all.merge(par_cases(cfg, "roundtrip", cfg.n(10_000, 16 * 36_000), || (), |_, rng, ctx, _| roundtrip_case(rng, ctx, false)));
    if !small() {
        // exhaustive single/double cuts: hundreds of decoder runs per case, too slow to interpret
        all.merge(par_cases(cfg, "allcuts", cfg.n(200, 4800), || (), |_, rng, ctx, _| roundtrip_case(rng, ctx, true)));
    }
    for k in [
        "cut.inside_prefix",
        "cut.inside_payload",
        "src.pending_between_ready",
        "enc.yield_flush",
        "dec.body_pending",
        "dec.mixed_flags_under_compression",
        "enc.chained_put",
    ] {
        all.floor(k, 5);
    }
    for e in Enc::all() {
        for r in ["Client", "Server"] {
            all.floor(&format!("cfg.{}.{}", e.name(), r), 3);
        }
    }
    all
}

pub fn roundtrip_case(rng: &mut Rng, ctx: &mut Ctx, all_cuts: bool) {
    let enc = forced_enc().unwrap_or(*rng.pick(Enc::all()));
    let role = if rng.bool() { Role::Server } else { Role::Client };
    let prost = rng.chance(1, 3);
    let bs = *rng.pick(BUF_SIZES);
    let yt = *rng.pick(YIELDS);
    let sizes = if all_cuts {
        let n = rng.urange(1, 4);
        (0..n).map(|_| *rng.pick(&[0usize, 1, 3, 5, 6, 17, 40])).collect()
    } else {
        gen_sizes(rng, bs, yt, 40)
    };
    let src_class = rng.below(4);
    let piecewise = rng.bool();
    let chained = rng.chance(1, 3);
    let case = json!({"enc": enc.name(), "role": format!("{:?}", role), "codec": if prost {"prost"} else {"raw"},
        "buffer_size": bs, "yield_threshold": yt, "sizes": sizes, "source_class": src_class, "piecewise": piecewise, "chained": chained});
    let bs_class = match bs { 0 => "bs0", 1..=6 => "bs-tiny", 7..=1000 => "bs-small", _ => "bs-default" };
    ctx.begin(&format!("{}-{}", if enc == Enc::Identity { "identity" } else { "compressed" }, bs_class), case.clone());
    ctx.count(&format!("cfg.{}.{:?}", enc.name(), role));
    if chained && !prost {
        ctx.count("enc.chained_put");
    }

    // payloads as the wire should carry them (before compression)
    let (payloads, raw_items, pb_items): (Vec<Vec<u8>>, Vec<Vec<u8>>, Vec<Msg>) = if prost {
        let msgs: Vec<Msg> = sizes.iter().enumerate().map(|(i, &s)| make_msg(rng, s, i)).collect();
        let pl = msgs.iter().map(|m| ref_pb_encode(&m.data, m.seq, &m.tag)).collect();
        (pl, vec![], msgs)
    } else {
        let items: Vec<Vec<u8>> = sizes.iter().map(|&s| rng.payload(s)).collect();
        (items.clone(), items, vec![])
    };

    // ---- encode under the primary schedule
    let run_enc = |rng: &mut Rng, class: u64, yt: usize| -> EncOut {
        if prost {
            let steps = source_steps(rng, &pb_items, class);
            encode_run(ProstCodec::<Msg, Msg>::raw_encoder(BufferSettings::new(bs, yt)), steps, enc, role, None, 3)
        } else {
            let steps = source_steps(rng, &raw_items, class);
            encode_run(RawEncoder { bs: (bs, yt), piecewise, chained }, steps, enc, role, None, 3)
        }
    };
    let e0 = run_enc(rng, src_class, yt);
    let wire = e0.wire();
    if e0.stalled || e0.budget {
        ctx.violation("encoder-hang", format!("encoder stalled={} budget={}", e0.stalled, e0.budget));
        return;
    }
    if e0.after_end_non_none > 0 {
        ctx.violation("frame-after-end", "encoder yielded a frame after the end of the body".into());
    }
    if e0.src.polls_after_end.load(std::sync::atomic::Ordering::SeqCst) > 0 {
        ctx.violation("source-polled-after-end", "message source polled after it returned None".into());
    }
    // frame-level structure
    let mut n_data = 0;
    let mut n_trailers = 0;
    let mut boundaries = vec![];
    let mut off = 0usize;
    for (i, f) in e0.frames.iter().enumerate() {
        match f {
            EFrame::Data(d) => {
                if n_trailers > 0 {
                    ctx.violation("data-after-trailers", "DATA frame after trailers".into());
                }
                if d.is_empty() {
                    // legal in HTTP/2 and not constrained by the property: observed, not judged
                    let _ = i;
                    ctx.count("observed.empty_data_frames_from_encoder");
                }
                n_data += 1;
                off += d.len();
                boundaries.push(off);
            }
            EFrame::Trailers(t) => {
                n_trailers += 1;
                if role == Role::Client {
                    ctx.violation("client-trailers", "client body produced trailers".into());
                }
                match t.get("grpc-status").map(|v| v.as_bytes().to_vec()) {
                    Some(v) if v == b"0" => {}
                    other => ctx.violation("bad-ok-trailers", format!("grpc-status in trailers: {:?}", other)),
                }
            }
            EFrame::Err(s) => ctx.violation("encode-error", format!("encoder error {}", status_brief(s))),
        }
    }
    if role == Role::Server && n_trailers != 1 {
        ctx.violation("trailers-count", format!("server body produced {} trailers frames", n_trailers));
    }
    // reference parse of the wire bytes
    let (frames, tail) = ref_parse(&wire);
    if tail != Tail::Clean {
        ctx.violation("wire-not-framed", format!("reference parser tail {:?}", tail));
        return;
    }
    if frames.len() != payloads.len() {
        ctx.violation("wire-count", format!("wire has {} messages, source had {}", frames.len(), payloads.len()));
        return;
    }
    let starts: std::collections::BTreeSet<usize> =
        frames.iter().map(|f| f.start).chain(std::iter::once(wire.len())).collect();
    for b in &boundaries {
        if !starts.contains(b) {
            // how the encoder batches its output is free: observed, not judged
            ctx.count("observed.data_frame_boundaries_inside_a_message");
        }
    }
    for (i, (f, p)) in frames.iter().zip(&payloads).enumerate() {
        // flag 1 = compressed with the stream's encoding; flag 0 = as serialized (always legal, a
        // sender may leave any message uncompressed); anything else is illegal
        if f.flag > 1 || (f.flag == 1 && enc == Enc::Identity) {
            ctx.violation("wire-flag", format!("message {} has flag {} under encoding {}", i, f.flag, enc.name()));
        }
        match ref_decompress(if f.flag == 1 { enc } else { Enc::Identity }, &f.payload) {
            Ok(d) if &d == p => {}
            Ok(d) => ctx.violation("wire-payload", format!("message {}: payload differs (len {} vs {})", i, d.len(), p.len())),
            Err(e) => ctx.violation("wire-decompress", format!("message {}: independent decompressor failed: {}", i, e)),
        }
    }
    if n_data > 1 {
        ctx.count("enc.multi_frame");
    }
    if yt > 0 && src_class == 0 && sizes.len() >= 2 && wire.len() > yt {
        // the workload crosses the yield threshold with an always-ready source (whether and where
        // the encoder then flushes is its own business)
        ctx.count("enc.yield_flush");
    }
    if n_data >= 2 {
        ctx.count("observed.multi_data_frame_bodies");
    }
    if src_class != 0 && sizes.len() >= 2 {
        ctx.count("src.pending_between_ready");
    }

    // ---- metamorphic: other schedules / yield thresholds give identical bytes
    let k = if all_cuts || small() { 1 } else { 3 };
    for _ in 0..k {
        let class2 = rng.below(4);
        let yt2 = *rng.pick(YIELDS);
        let e2 = run_enc(rng, class2, yt2);
        if e2.wire() != wire {
            ctx.violation(
                "schedule-dependent-bytes",
                format!("bytes differ between source class {} / yield {} and class {} / yield {}", src_class, yt, class2, yt2),
            );
        }
        ctx.count("metamorphic.pairs");
    }

    // ---- the per-message opt-out as a peer would send it: some messages of a compressing stream
    //      travel uncompressed (flag 0); same messages, same order after decoding
    let (wire, frames) = if enc != Enc::Identity && !payloads.is_empty() && rng.chance(1, 3) {
        let mut w = Vec::new();
        for (f, p) in frames.iter().zip(&payloads) {
            if rng.bool() {
                w.extend(ref_frame(0, p));
            } else {
                // as the encoder sent it (flag 1, or flag 0 if it chose not to compress this one)
                w.extend(ref_frame(f.flag, &f.payload));
            }
        }
        ctx.count("dec.mixed_flags_under_compression");
        let (fr, _) = ref_parse(&w);
        (w, fr)
    } else {
        (wire, frames)
    };
    // ---- decode under generated chunkings
    let special: Vec<usize> = frames.iter().map(|f| f.start).collect();
    let mut cutsets: Vec<(String, Vec<usize>)> = Vec::new();
    if all_cuts {
        // every single cut and every pair among a bounded set
        for c in 1..wire.len() {
            cutsets.push(("single".into(), vec![c]));
        }
        let lim = wire.len().min(24);
        for a in 1..lim {
            for b in (a + 1)..lim {
                cutsets.push(("double".into(), vec![a, b]));
            }
        }
    } else {
        for _ in 0..2 {
            let style = *rng.pick(CUT_STYLES);
            cutsets.push((format!("{:?}", style), cut_positions(rng, wire.len(), style, &special)));
        }
    }
    let mut worst = String::new();
    for (style, cuts) in cutsets {
        // classify what the cuts hit
        let mut in_prefix = false;
        let mut in_payload = false;
        for &c in &cuts {
            for f in &frames {
                if c > f.start && c < f.start + 5 {
                    in_prefix = true;
                }
                if c > f.start + 5 && c < f.start + 5 + f.payload.len() {
                    in_payload = true;
                }
            }
        }
        if in_prefix {
            ctx.count("cut.inside_prefix");
        }
        if in_payload {
            ctx.count("cut.inside_payload");
            if enc != Enc::Identity {
                ctx.count("cut.inside_compressed_payload");
            }
        }
        let chunks = split_at_cuts(&wire, &cuts);
        let pend = rng.below(3);
        let mut steps = body_steps(rng, chunks, pend, 4, true);
        if pend > 0 {
            ctx.count("dec.body_pending");
        }
        let dir = match rng.below(3) {
            0 => Dir::Request,
            1 => Dir::Response(200),
            _ => {
                let mut t = http::HeaderMap::new();
                t.insert("grpc-status", "0".parse().unwrap());
                steps.push(BStep::Trailers(t));
                Dir::Response(200)
            }
        };
        let eager = rng.bool();
        ctx.count("dec.runs");
        macro_rules! judge {
            ($out:expr, $expect:expr, $eq:expr) => {{
                let out = $out;
                if out.stalled || out.budget {
                    ctx.violation("decoder-hang", format!("decoder stalled={} budget={} cuts={}", out.stalled, out.budget, style));
                } else {
                    let got = out.msgs();
                    let ok = got.len() == $expect.len() && got.iter().zip($expect.iter()).all(|(a, b)| $eq(*a, b));
                    if !ok {
                        ctx.violation("decoded-differs", format!("decoded {} messages, expected {} (cuts {})", got.len(), $expect.len(), style));
                    }
                    match out.first_terminal() {
                        Some(i) => {
                            if !matches!(out.seq[i], DItem::End) {
                                if let DItem::Err(e) = &out.seq[i] {
                                    ctx.violation("decode-error", format!("decoder error {} (cuts {})", status_brief(e), style));
                                }
                            }
                            if out.seq[i + 1..].iter().any(|x| !matches!(x, DItem::End)) {
                                ctx.violation("item-after-end", "stream yielded something after its clean end".into());
                            }
                        }
                        None => ctx.violation("no-end", "no end of stream".into()),
                    }
                    if out.body.is_busy() {
                        ctx.violation("body-busy-polled", "body polled >64 times after it ended".into());
                    }
                }
            }};
        }
        // "every way of cutting the byte stream into chunks": also chunks that are themselves
        // non-contiguous buffers
        let segmented = rng.chance(1, 4);
        if segmented {
            ctx.count("dec.segmented_data");
        }
        if prost {
            let out = crate::codec_drv::with_segmented(segmented, || decode_run(ProstCodec::<Msg, Msg>::raw_decoder(BufferSettings::new(bs, yt)), steps, dir, enc, None, 2, eager, false));
            judge!(out, pb_items, |a: &Msg, b: &Msg| a == b);
        } else {
            let out = crate::codec_drv::with_segmented(segmented, || decode_run(RawDecoder { bs: (bs, yt) }, steps, dir, enc, None, 2, eager, false));
            judge!(out, raw_items, |a: &Vec<u8>, b: &Vec<u8>| a == b);
        }
        if in_prefix && in_payload {
            worst = "prefix+payload".into();
        } else if in_prefix && worst.is_empty() {
            worst = "prefix".into();
        } else if in_payload && worst.is_empty() {
            worst = "payload".into();
        }
    }

    // fingerprint: encoding × role × codec × buffer class × #msgs class × readiness × what the cuts hit × #data frames class
    let nclass = match sizes.len() { 0 => "0", 1 => "1", 2..=6 => "few", _ => "many" };
    let fclass = match n_data { 0 => "0", 1 => "1", _ => "n" };
    let fp = format!("{}|{:?}|{}|{}|yt{}|n={}|src{}|cut={}|frames={}", enc.name(), role, if prost {"prost"} else {"raw"}, bs_class,
        match yt {0=>"0",1..=64=>"tiny",65..=8192=>"mid",_=>"big"}, nclass, src_class, worst, fclass);
    let nontrivial = sizes.len() >= 2 && !worst.is_empty();
    ctx.fingerprint(fp, nontrivial);
    ctx.add("observed.messages_roundtripped", sizes.len() as u64);
    ctx.add("observed.wire_bytes", wire.len() as u64);
    ctx.sample(case);
}
