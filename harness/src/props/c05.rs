//! C05 — compression is used only as negotiated and configured.
use crate::codec_drv::drain_body;
use crate::ctx::*;
use crate::exec::{Exec, Out};
use crate::pb::verif::{verif_client::VerifClient, verif_server::VerifServer};
use crate::pb::Msg;
use crate::prng::Rng;
use crate::refc::*;
use crate::svc::*;
use bytes::Bytes;
use http::{HeaderMap, HeaderValue};
use serde_json::json;
use std::sync::{Arc, Mutex};
use std::task::{Context, Poll};
use tower_service::Service;

const ENCS: [Enc; 3] = [Enc::Gzip, Enc::Deflate, Enc::Zstd];

/// All ordered subsets of {gzip, deflate, zstd}: 16 of them.
pub fn ordered_subsets() -> Vec<Vec<Enc>> {
    let mut out: Vec<Vec<Enc>> = vec![vec![]];
    for a in ENCS {
        out.push(vec![a]);
        for b in ENCS {
            if b != a {
                out.push(vec![a, b]);
                for c in ENCS {
                    if c != a && c != b {
                        out.push(vec![a, b, c]);
                    }
                }
            }
        }
    }
    out
}

fn names(v: &[Enc]) -> Vec<&'static str> {
    v.iter().map(|e| e.name()).collect()
}

/// grpc-accept-encoding header value from a small grammar; returns (bytes, tokens the oracle
/// considers offered — exact lowercase names after OWS trimming; None if the value is not text)
fn gen_accept_header(rng: &mut Rng) -> Option<(Vec<u8>, Vec<String>)> {
    if rng.chance(1, 8) {
        return None; // absent
    }
    let pool = ["gzip", "deflate", "zstd", "identity", "br", "snappy", "", "gzipx", "xgzip", "zst", "*"];
    let n = rng.urange(0, 5);
    let mut toks: Vec<String> = (0..n).map(|_| rng.pick(&pool).to_string()).collect();
    if rng.chance(1, 4) && !toks.is_empty() {
        let d = toks[0].clone();
        toks.push(d);
    }
    let mut s = Vec::new();
    for (i, t) in toks.iter().enumerate() {
        if i > 0 {
            s.push(b',');
        }
        for _ in 0..rng.below(3) {
            s.push(if rng.bool() { b' ' } else { b'\t' });
        }
        s.extend_from_slice(t.as_bytes());
        for _ in 0..rng.below(2) {
            s.push(b' ');
        }
    }
    // header values cannot start/end with whitespace in some stacks; keep it simple: trim edges
    while s.first() == Some(&b' ') || s.first() == Some(&b'\t') {
        s.remove(0);
    }
    while s.last() == Some(&b' ') || s.last() == Some(&b'\t') {
        s.pop();
    }
    if rng.chance(1, 12) {
        // non-ASCII (obs-text) byte somewhere: a server may treat the whole value as unreadable
        // (nothing offered) or read it token by token; what it can never do is choose something
        // that is not literally one of the comma-separated tokens - that token set is the bound
        let at = rng.usize_below(s.len() + 1);
        s.insert(at, 0xe9);
        let offered: Vec<String> = s
            .split(|b| *b == b',')
            .map(|t| {
                let mut t = t;
                while let [b' ' | b'\t', rest @ ..] = t {
                    t = rest;
                }
                while let [rest @ .., b' ' | b'\t'] = t {
                    t = rest;
                }
                t
            })
            .filter(|t| t.is_ascii())
            .map(|t| String::from_utf8_lossy(t).to_string())
            .collect();
        return Some((s, offered));
    }
    let offered = toks.iter().map(|t| t.trim().to_string()).collect();
    Some((s, offered))
}

pub fn run(cfg: &RunCfg) -> Ctx {
    let mut all = Ctx::new();
    all.merge(par_cases(cfg, "server", cfg.n(20_000, 16 * 800_000), || (), |_, rng, ctx, i| server_case(rng, ctx, i)));
    all.merge(par_cases(cfg, "client", cfg.n(12_000, 16 * 400_000), || (), |_, rng, ctx, i| client_case(rng, ctx, i)));
    all.merge(par_cases(cfg, "enclist", cfg.n(3_000, 200_000), || (), |_, rng, ctx, _| enclist_case(rng, ctx)));
    all.floor("list.pop_left_something", 20);
    all.floor("cli.caller_supplied_negotiation_headers", 20);
    let pairs: Vec<String> = all.counters.keys().filter(|k| k.starts_with("cfgpair.")).cloned().collect();
    for k in &pairs {
        all.counters.remove(k);
    }
    all.add("srv.config_pairs_seen", pairs.len() as u64);
    all.floor("cli.trailers_only_refused", 3);
    for k in ["srv.compressed_response", "srv.identity_response", "srv.request_refused_unimplemented", "srv.flag1_without_encoding", "srv.offer_not_enabled", "cli.request_compressed", "cli.request_frames_flag1", "cli.response_refused", "cli.flag1_without_encoding", "cli.response_decompressed"] {
        all.floor(k, 5);
    }
    all.floor("srv.config_pairs_seen", if cfg.thorough { 256 } else { 200 });
    all
}

fn mk_server(send: &[Enc], acc: &[Enc], h: Handler) -> VerifServer<Handler> {
    let mut s = VerifServer::new(h);
    for e in send {
        s = s.send_compressed(e.tonic().unwrap());
    }
    for e in acc {
        s = s.accept_compressed(e.tonic().unwrap());
    }
    s
}

fn server_case(rng: &mut Rng, ctx: &mut Ctx, idx: u64) {
    let subsets = ordered_subsets();
    // walk the 16x16 configuration grid systematically, randomise the rest
    let send = subsets[(idx % 16) as usize].clone();
    let acc = subsets[((idx / 16) % 16) as usize].clone();
    ctx.count(&format!("cfgpair.{}.{}", idx % 16, (idx / 16) % 16));
    let shape = *rng.pick(&SHAPES);
    let accept = gen_accept_header(rng);
    // request encoding header
    let req_enc_hdr: Option<Vec<u8>> = match rng.below(8) {
        0 | 1 => None,
        2 => Some(b"identity".to_vec()),
        3 | 4 => Some(rng.pick(&ENCS).name().as_bytes().to_vec()),
        5 => Some(rng.pick(&["br", "snappy", "", "gzipx", "gzip ", "zstd,gzip"]).as_bytes().to_vec()),
        6 => Some(vec![0xe9, b'g']),
        _ => {
            if acc.is_empty() { None } else { Some(rng.pick(&acc).name().as_bytes().to_vec()) }
        }
    };
    let req_enc: Option<Enc> = req_enc_hdr.as_ref().and_then(|b| std::str::from_utf8(b).ok()).and_then(Enc::from_name).filter(|e| *e != Enc::Identity);
    // request frames
    let nreq = if matches!(shape, Shape::ClientStream | Shape::Bidi) { rng.urange(1, 3) } else { 1 };
    let mut body = Vec::new();
    let mut any_flag1 = false;
    let mut sent_msgs = Vec::new();
    for i in 0..nreq {
        let m = Msg { data: rng.payload_of(&[0usize, 10, 200]), seq: i as u64 + 1, tag: String::new() };
        let pl = ref_pb_encode(&m.data, m.seq, &m.tag);
        let flag1 = rng.chance(1, 2);
        if flag1 {
            any_flag1 = true;
            if req_enc.is_none() && rng.chance(1, 3) {
                // flagged but empty: there is "nothing to inflate", yet it is still a compressed-flag
                // message without a negotiated encoding
                body.extend(ref_frame(1, &[]));
                ctx.count("srv.flag1_empty_payload");
            } else {
                // compress with the announced encoding when there is one, else with anything
                let e = req_enc.unwrap_or(Enc::Gzip);
                body.extend(ref_frame(1, &ref_compress(e, &pl)));
            }
        } else {
            body.extend(ref_frame(0, &pl));
        }
        sent_msgs.push(m);
    }
    let disable = rng.chance(1, 6);
    let handler = Handler::new();
    let id = format!("s{}", idx);
    let resp_msgs: Vec<Msg> = (0..if matches!(shape, Shape::ServerStream | Shape::Bidi) { rng.urange(1, 3) } else { 1 })
        .map(|i| Msg { data: vec![b'z'; [0usize, 5, 400][rng.usize_below(3)]], seq: 50 + i as u64, tag: "r".into() })
        .collect();
    handler.set_script(&id, Script { msgs: resp_msgs.clone(), disable_compression: disable, ..Default::default() });
    let mut svc = mk_server(&send, &acc, handler.clone());
    let path = match shape {
        Shape::Unary => "/verif.v1.Verif/Unary",
        Shape::ClientStream => "/verif.v1.Verif/ClientStream",
        Shape::ServerStream => "/verif.v1.Verif/ServerStream",
        Shape::Bidi => "/verif.v1.Verif/Bidi",
    };
    let mut req = http::Request::new(http_body_util::Full::new(Bytes::from(body)));
    *req.method_mut() = http::Method::POST;
    *req.version_mut() = http::Version::HTTP_2;
    *req.uri_mut() = path.parse().unwrap();
    req.headers_mut().insert("content-type", HeaderValue::from_static("application/grpc"));
    req.headers_mut().insert("te", HeaderValue::from_static("trailers"));
    req.headers_mut().insert("x-script", id.parse().unwrap());
    if let Some((v, _)) = &accept {
        req.headers_mut().insert("grpc-accept-encoding", HeaderValue::from_bytes(v).expect("verif-harness-bug: accept value"));
    }
    if let Some(v) = &req_enc_hdr {
        req.headers_mut().insert("grpc-encoding", HeaderValue::from_bytes(v).expect("verif-harness-bug: encoding value"));
    }
    let case_json = json!({"shape": format!("{:?}", shape), "send": names(&send), "accept": names(&acc),
        "grpc-accept-encoding": accept.as_ref().map(|a| String::from_utf8_lossy(&a.0).to_string()),
        "grpc-encoding": req_enc_hdr.as_ref().map(|b| String::from_utf8_lossy(b).to_string()), "any_flag1": any_flag1, "disable_compression": disable});
    // input class for signatures
    let offered: Vec<Enc> = accept.as_ref().map(|a| a.1.iter().filter_map(|t| Enc::from_name(t)).filter(|e| *e != Enc::Identity).collect()).unwrap_or_default();
    let admissible: Vec<Enc> = send.iter().copied().filter(|e| offered.contains(e)).collect();
    let class = if offered.iter().any(|e| !send.contains(e)) { "offer-includes-not-enabled" } else if admissible.is_empty() { "nothing-admissible" } else { "admissible" };
    ctx.begin(class, case_json.clone());
    if class == "offer-includes-not-enabled" {
        ctx.count("srv.offer_not_enabled");
    }

    let mut ex = Exec::new();
    let resp = match ex.block_on(100_000, svc.call(req)) {
        Out::Done(Ok(r)) => r,
        Out::Done(Err(e)) => match e {},
        _ => {
            ctx.violation("hang", "server call did not complete".into());
            return;
        }
    };
    let (parts, rbody) = resp.into_parts();
    let (data, _, trailers) = match drain_body(rbody, &mut ex) {
        Ok(x) => x,
        Err(e) => {
            ctx.violation("response-body", e);
            return;
        }
    };
    let status: Option<String> = parts.headers.get("grpc-status").or(trailers.as_ref().and_then(|t| t.get("grpc-status"))).map(|v| String::from_utf8_lossy(v.as_bytes()).to_string());
    let status_hdrs: HeaderMap = if parts.headers.contains_key("grpc-status") { parts.headers.clone() } else { trailers.clone().unwrap_or_default() };

    // ---- request side expectation
    let hdr_is_identity_or_absent = match &req_enc_hdr {
        None => true,
        Some(b) => b == b"identity",
    };
    let enc_enabled = matches!(req_enc, Some(e) if acc.contains(&e)) && req_enc_hdr.as_ref().map(|b| Enc::from_name(std::str::from_utf8(b).unwrap_or("")).is_some()).unwrap_or(false);
    if !hdr_is_identity_or_absent && !enc_enabled {
        // must be refused with UNIMPLEMENTED + grpc-accept-encoding listing exactly the enabled ones
        ctx.count("srv.request_refused_unimplemented");
        if status.as_deref() != Some("12") {
            ctx.violation("request-encoding-not-refused", format!("request grpc-encoding {:?} is not enabled for receiving but the status is {:?}", req_enc_hdr.as_ref().map(|b| String::from_utf8_lossy(b).to_string()), status));
        } else {
            let adv = status_hdrs.get("grpc-accept-encoding").map(|v| String::from_utf8_lossy(v.as_bytes()).to_string());
            let mut toks: Vec<String> = adv.clone().unwrap_or_default().split(',').map(|t| t.trim().to_string()).filter(|t| !t.is_empty() && t != "identity").collect();
            toks.sort();
            let mut want: Vec<String> = acc.iter().map(|e| e.name().to_string()).collect();
            want.sort();
            if adv.is_none() || toks != want {
                ctx.violation("refusal-accept-encoding", format!("refusal advertises grpc-accept-encoding {:?}, enabled for receiving: {:?}", adv, want));
            }
        }
        if handler.log(&id).entered != 0 {
            ctx.violation("handler-ran-on-refused", "handler ran although the request encoding was refused".into());
        }
        ctx.fingerprint(format!("srv|refused|{:?}|acc{}", shape, acc.len()), true);
        ctx.sample(case_json);
        return;
    }
    let effective_req_enc = if hdr_is_identity_or_absent { None } else { req_enc };
    if any_flag1 && effective_req_enc.is_none() {
        ctx.count("srv.flag1_without_encoding");
        if matches!(shape, Shape::ClientStream | Shape::Bidi) {
            // streaming requests: the rejection reaches the handler as the request stream's error
            let end = handler.log(&id).req_end;
            if end != Some(Err("Internal".to_string())) {
                ctx.violation("flag1-without-encoding", format!("a request message flagged compressed without a negotiated encoding reached the handler's stream as {:?} (want Err(Internal))", end));
            }
        } else if status.as_deref() != Some("13") {
            ctx.violation("flag1-without-encoding", format!("a message flagged compressed without a negotiated encoding gave status {:?} (want 13 INTERNAL)", status));
        }
        ctx.fingerprint(format!("srv|flag1-noenc|{:?}", shape), true);
        ctx.sample(case_json);
        return;
    }
    // request accepted: handler must have received the messages
    if status.as_deref() != Some("0") {
        ctx.violation("valid-request-failed", format!("request is acceptable (encoding {:?}) but status is {:?} {:?}", effective_req_enc.map(|e| e.name()), status, status_hdrs.get("grpc-message")));
        return;
    }
    let log = handler.log(&id);
    let want_req: Vec<Msg> = if matches!(shape, Shape::ClientStream | Shape::Bidi) { sent_msgs.clone() } else { vec![sent_msgs[0].clone()] };
    if log.req_msgs != want_req {
        ctx.violation("request-messages", format!("handler received {} messages, sent {}", log.req_msgs.len(), want_req.len()));
    }

    // ---- response side
    let renc_hdr = parts.headers.get("grpc-encoding").map(|v| String::from_utf8_lossy(v.as_bytes()).to_string());
    let (frames, tail) = ref_parse(&data);
    if tail != Tail::Clean {
        ctx.violation("response-framing", format!("{:?}", tail));
        return;
    }
    let any_resp_flag1 = frames.iter().any(|f| f.flag == 1);
    match &renc_hdr {
        Some(r) if r != "identity" => {
            ctx.count("srv.compressed_response");
            match Enc::from_name(r) {
                None => ctx.violation("response-encoding-unknown", format!("grpc-encoding {:?}", r)),
                Some(e) => {
                    if !send.contains(&e) {
                        ctx.violation("response-encoding-not-enabled", format!("response compressed with {} which is not enabled for sending (send = {:?})", r, names(&send)));
                    }
                    if !offered.contains(&e) {
                        ctx.violation("response-encoding-not-offered", format!("response compressed with {} which the request did not offer ({:?})", r, accept.as_ref().map(|a| String::from_utf8_lossy(&a.0).to_string())));
                    }
                    for (i, f) in frames.iter().enumerate() {
                        let pl = match f.flag {
                            0 => Some(f.payload.clone()),
                            1 => ref_decompress(e, &f.payload).ok(),
                            _ => None,
                        };
                        match pl.and_then(|p| ref_pb_decode_msg(&p)) {
                            Some((d, s, t)) => {
                                let m = &resp_msgs[i.min(resp_msgs.len() - 1)];
                                if (d, s, t) != (m.data.clone(), m.seq, m.tag.clone()) {
                                    ctx.violation("response-message", format!("frame {} does not decode to the handler's message", i));
                                }
                            }
                            None => ctx.violation("response-frame-undecodable", format!("frame {} (flag {}) does not decompress with the announced {} / decode", i, f.flag, r)),
                        }
                    }
                    if disable && matches!(shape, Shape::Unary | Shape::ClientStream) && any_resp_flag1 {
                        ctx.violation("opt-out-ignored", "response compressed although the handler disabled compression for it".into());
                    }
                }
            }
        }
        _ => {
            ctx.count("srv.identity_response");
            if any_resp_flag1 {
                ctx.violation("flag1-without-announcement", "response frame flagged compressed but no grpc-encoding announced".into());
            }
        }
    }
    if frames.len() != resp_msgs.len() {
        ctx.violation("response-count", format!("{} frames for {} messages", frames.len(), resp_msgs.len()));
    }
    ctx.fingerprint(
        format!("srv|{:?}|send{}|acc{}|{}|renc={}|req={}|f1{}", shape, send.len(), acc.len(), class, renc_hdr.clone().unwrap_or("-".into()), effective_req_enc.map(|e| e.name()).unwrap_or("-"), any_flag1 as u8),
        renc_hdr.is_some() || effective_req_enc.is_some() || class != "admissible",
    );
    ctx.sample(case_json);
}

// ------------------------------------------------------------------ client side

#[derive(Clone)]
struct CapSvc {
    seen: Arc<Mutex<Vec<(http::request::Parts, Vec<u8>)>>>,
    resp_headers: HeaderMap,
    resp_body: Vec<u8>,
    /// Some(code): a Trailers-Only response (grpc-status in the headers, no body)
    trailers_only: Option<i32>,
}

impl Service<http::Request<tonic::body::Body>> for CapSvc {
    type Response = http::Response<crate::script::ScriptBody>;
    type Error = std::convert::Infallible;
    type Future = std::pin::Pin<Box<dyn std::future::Future<Output = Result<Self::Response, Self::Error>> + Send>>;
    fn poll_ready(&mut self, _: &mut Context<'_>) -> Poll<Result<(), Self::Error>> {
        Poll::Ready(Ok(()))
    }
    fn call(&mut self, req: http::Request<tonic::body::Body>) -> Self::Future {
        let seen = self.seen.clone();
        let rh = self.resp_headers.clone();
        let rb = self.resp_body.clone();
        let tonly = self.trailers_only;
        Box::pin(async move {
            let (parts, body) = req.into_parts();
            // drain the request body inside the service future
            let mut body = Box::pin(body);
            let mut data = Vec::new();
            loop {
                let f = std::future::poll_fn(|cx| http_body::Body::poll_frame(body.as_mut(), cx)).await;
                match f {
                    Some(Ok(fr)) => {
                        if let Ok(d) = fr.into_data() {
                            data.extend_from_slice(&d);
                        }
                    }
                    Some(Err(_)) | None => break,
                }
            }
            seen.lock().unwrap().push((parts, data));
            let mut t = HeaderMap::new();
            t.insert("grpc-status", HeaderValue::from_static("0"));
            let steps = if tonly.is_some() { vec![] } else { vec![crate::script::BStep::Data(rb), crate::script::BStep::Trailers(t)] };
            let (sb, _) = crate::script::ScriptBody::new(steps);
            let mut resp = http::Response::new(sb);
            *resp.headers_mut() = rh;
            if let Some(c) = tonly {
                resp.headers_mut().insert("grpc-status", HeaderValue::from_str(&c.to_string()).unwrap());
            }
            resp.headers_mut().insert("content-type", HeaderValue::from_static("application/grpc"));
            Ok(resp)
        })
    }
}

/// The configuration type itself: a server or client is "told" its encodings through an
/// `EnabledCompressionEncodings` list (`enable` appends, `pop` removes the last); what the list
/// then says is enabled must be what an ordered list without duplicates says.
fn enclist_case(rng: &mut Rng, ctx: &mut Ctx) {
    use tonic::codec::EnabledCompressionEncodings;
    let encs = Enc::compressed();
    let n = rng.urange(1, 9);
    let ops: Vec<Option<Enc>> = (0..n).map(|_| if rng.chance(1, 3) { None } else { Some(*rng.pick(encs)) }).collect();
    ctx.begin("enclist", json!({"ops": ops.iter().map(|o| o.map(|e| format!("enable({})", e.name())).unwrap_or("pop()".into())).collect::<Vec<_>>()}));
    let mut real = EnabledCompressionEncodings::default();
    let mut model: Vec<Enc> = Vec::new();
    for (i, op) in ops.iter().enumerate() {
        match op {
            Some(e) => {
                real.enable(e.tonic().unwrap());
                if !model.contains(e) {
                    model.push(*e);
                }
            }
            None => {
                let got = real.pop();
                let want = model.pop();
                if got != want.and_then(|e| e.tonic()) {
                    ctx.violation("list-pop", format!("step {}: pop() returned {:?}, the last enabled encoding is {:?}", i, got, want.map(|e| e.name())));
                    return;
                }
                if !model.is_empty() {
                    ctx.count("list.pop_left_something");
                }
            }
        }
        for e in encs {
            if real.is_enabled(e.tonic().unwrap()) != model.contains(e) {
                ctx.violation("list-enabled", format!("after step {}: is_enabled({}) is {}, the list built so far is {:?}", i, e.name(), !model.contains(e), model.iter().map(|e| e.name()).collect::<Vec<_>>()));
                return;
            }
        }
        if real.is_empty() != model.is_empty() {
            ctx.violation("list-empty", format!("after step {}: is_empty() is {}, the list built so far is {:?}", i, real.is_empty(), model.iter().map(|e| e.name()).collect::<Vec<_>>()));
            return;
        }
    }
}

fn client_case(rng: &mut Rng, ctx: &mut Ctx, _idx: u64) {
    let subsets = ordered_subsets();
    let acc = rng.pick(&subsets).clone();
    let send: Option<Enc> = if rng.bool() { Some(*rng.pick(&ENCS)) } else { None };
    // scripted response
    let resp_enc_hdr: Option<&str> = *rng.pick(&[None, None, Some("identity"), Some("gzip"), Some("deflate"), Some("zstd"), Some("br"), Some("")]);
    let resp_enc = resp_enc_hdr.and_then(Enc::from_name).filter(|e| *e != Enc::Identity);
    let flag1 = rng.bool();
    let reply = Msg { data: rng.payload_of(&[0usize, 20, 300]), seq: 9, tag: "reply".into() };
    let pl = ref_pb_encode(&reply.data, reply.seq, &reply.tag);
    let empty_flag1 = flag1 && rng.chance(1, 3);
    let resp_body = if empty_flag1 { ref_frame(1, &[]) } else if flag1 { ref_frame(1, &ref_compress(resp_enc.unwrap_or(Enc::Deflate), &pl)) } else { ref_frame(0, &pl) };
    let mut rh = HeaderMap::new();
    if let Some(v) = resp_enc_hdr {
        rh.insert("grpc-encoding", HeaderValue::from_str(v).unwrap());
    }
    let shape = *rng.pick(&[Shape::Unary, Shape::ServerStream, Shape::ClientStream, Shape::Bidi]);
    let case_json = json!({"shape": format!("{:?}", shape), "send_compressed": send.map(|e| e.name()), "accept_compressed": names(&acc), "response_grpc-encoding": resp_enc_hdr, "response_flag": flag1 as u8, "trailers_only_status": "see class"});
    let class = match (resp_enc_hdr, resp_enc) {
        (None, _) | (Some("identity"), _) => "resp-identity",
        (Some(_), Some(e)) if acc.contains(&e) => "resp-enabled",
        _ => "resp-not-enabled",
    };
    ctx.begin(class, case_json.clone());
    let seen = Arc::new(Mutex::new(Vec::new()));
    let _ = &case_json;
    // sometimes the scripted response is Trailers-Only (still announces a grpc-encoding)
    let trailers_only: Option<i32> = if rng.chance(1, 5) { Some(*rng.pick(&[0i32, 0, 3, 14])) } else { None };
    let cap = CapSvc { seen: seen.clone(), resp_headers: rh, resp_body, trailers_only };
    let mut client = VerifClient::new(cap);
    if let Some(e) = send {
        client = client.send_compressed(e.tonic().unwrap());
    }
    for e in &acc {
        client = client.accept_compressed(e.tonic().unwrap());
    }
    // a clone of a configured client must behave like the original
    let mut client = if rng.bool() { client.clone() } else { client };
    let nreq = if matches!(shape, Shape::ClientStream | Shape::Bidi) { rng.urange(0, 3) } else { 1 };
    let req_msgs: Vec<Msg> = (0..nreq).map(|i| Msg { data: rng.payload_of(&[0usize, 30, 500]), seq: i as u64 + 1, tag: String::new() }).collect();
    // metadata copied over from another call (a proxying service) may carry the two negotiation
    // headers: what this client announces is still its own configuration
    let mut req_meta: crate::gen::MetaSpec = vec![];
    if send.is_some() && rng.chance(1, 4) {
        req_meta.push(("grpc-encoding".into(), crate::gen::MVal::Ascii(rng.pick(&["identity", "gzip", "deflate", "zstd"]).to_string())));
        ctx.count("cli.caller_supplied_negotiation_headers");
    }
    if !acc.is_empty() && rng.chance(1, 4) {
        req_meta.push(("grpc-accept-encoding".into(), crate::gen::MVal::Ascii(rng.pick(&["identity", "zstd,deflate", "gzip", "br"]).to_string())));
        ctx.count("cli.caller_supplied_negotiation_headers");
    }
    let spec = CallSpec { id: "cli".into(), shape, req_msgs: req_msgs.clone(), req_meta, req_pend: vec![], req_gaps_ms: vec![], timeout: None, pingpong: None };
    let mut ex = Exec::new();
    let view = match ex.block_on(100_000, do_call(&mut client, &spec, None)) {
        Out::Done(v) => v,
        _ => {
            ctx.violation("hang", "client call did not complete".into());
            return;
        }
    };
    // ---- what went on the wire
    let seen = seen.lock().unwrap();
    if seen.len() != 1 {
        ctx.violation("request-count", format!("{} requests sent", seen.len()));
        return;
    }
    let (parts, body) = &seen[0];
    let enc_hdr = parts.headers.get("grpc-encoding").map(|v| String::from_utf8_lossy(v.as_bytes()).to_string());
    if enc_hdr.as_deref() != send.map(|e| e.name()) {
        ctx.violation("request-encoding-header", format!("grpc-encoding {:?}, configured to send {:?}", enc_hdr, send.map(|e| e.name())));
    }
    let adv = parts.headers.get("grpc-accept-encoding").map(|v| String::from_utf8_lossy(v.as_bytes()).to_string());
    let mut toks: Vec<String> = adv.clone().unwrap_or_default().split(',').map(|t| t.trim().to_string()).filter(|t| !t.is_empty() && t != "identity").collect();
    toks.sort();
    toks.dedup();
    let mut want: Vec<String> = acc.iter().map(|e| e.name().to_string()).collect();
    want.sort();
    if toks != want {
        ctx.violation("advertised-encodings", format!("grpc-accept-encoding {:?}, accepts {:?}", adv, want));
    }
    let (frames, tail) = ref_parse(body);
    if tail != Tail::Clean || frames.len() != req_msgs.len() {
        ctx.violation("request-framing", format!("{} frames for {} messages, tail {:?}", frames.len(), req_msgs.len(), tail));
    } else {
        for (f, m) in frames.iter().zip(&req_msgs) {
            // flag 1 needs a configured encoding; flag 0 under a configured encoding is what a
            // sender does that declines to expand a message (legal on the wire, not a choice of a
            // different encoding): accepted only when compressing would not have paid off
            match (f.flag, send) {
                (0, None) => {}
                (1, Some(_)) => ctx.count("cli.request_frames_flag1"),
                (0, Some(e)) => {
                    let raw = ref_pb_encode(&m.data, m.seq, &m.tag);
                    if crate::refc::ref_compress(e, &raw).len() + 16 < raw.len() {
                        ctx.violation("request-flag", format!("a compressible request message ({} bytes, {} when compressed) was sent with flag 0 although the client is configured to send {}", raw.len(), crate::refc::ref_compress(e, &raw).len(), e.name()));
                    } else {
                        ctx.count("cli.incompressible_sent_raw");
                    }
                }
                (fl, _) => ctx.violation("request-flag", format!("request frame flag {} with send_compressed {:?}", fl, send.map(|e| e.name()))),
            }
            let pl = if f.flag == 1 { ref_decompress(send.unwrap_or(Enc::Gzip), &f.payload).ok() } else { Some(f.payload.clone()) };
            if pl.and_then(|p| ref_pb_decode_msg(&p)) != Some((m.data.clone(), m.seq, m.tag.clone())) {
                ctx.violation("request-payload", "request frame does not decompress/decode to the message with the configured encoding".into());
            }
        }
        if send.is_some() && !frames.is_empty() {
            ctx.count("cli.request_compressed");
        }
    }
    // ---- how the scripted response was treated
    let failure: Option<i32> = view.call_err.as_ref().map(|s| s.code).or(match &view.end { Some(Err(s)) => Some(s.code), _ => None });
    match class {
        "resp-not-enabled" => {
            ctx.count("cli.response_refused");
            if trailers_only.is_some() {
                ctx.count("cli.trailers_only_refused");
            }
            if failure != Some(12) {
                ctx.violation("response-encoding-not-refused", format!("response grpc-encoding {:?} is not enabled for receiving but the call outcome is {:?}", resp_enc_hdr, failure));
            }
        }
        _ if trailers_only.is_some() => {
            // acceptable encoding header on a body-less response: the outcome is the announced status
            // (a unary call without a message is an error of its own); nothing to judge here
            ctx.count("cli.trailers_only_accepted");
        }
        _ => {
            let eff = if class == "resp-enabled" { resp_enc } else { None };
            if flag1 && eff.is_none() {
                ctx.count("cli.flag1_without_encoding");
                if failure != Some(13) {
                    ctx.violation("flag1-without-encoding", format!("response message flagged compressed without negotiated encoding: outcome {:?} (want 13)", failure));
                }
            } else if empty_flag1 {
                // zero bytes are not a valid compressed stream of any encoding: any error is fine
                ctx.count("cli.flag1_empty_under_encoding");
            } else {
                if failure.is_some() || view.msgs != vec![reply.clone()] {
                    ctx.violation("valid-response-failed", format!("acceptable response (encoding {:?}, flag {}) gave outcome {:?}, {} messages", eff.map(|e| e.name()), flag1 as u8, failure, view.msgs.len()));
                } else if flag1 {
                    ctx.count("cli.response_decompressed");
                }
            }
        }
    }
    ctx.fingerprint(format!("cli|{:?}|send={}|acc{}|{}|f{}", shape, send.map(|e| e.name()).unwrap_or("-"), acc.len(), class, flag1 as u8), send.is_some() || !acc.is_empty() || class != "resp-identity");
    ctx.sample(case_json);
}
