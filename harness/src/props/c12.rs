//! C12 — interceptors change only what they change and can veto a call.
use crate::ctx::*;
use crate::exec::{Exec, Out};
use crate::gen::*;
use crate::prng::Rng;
use crate::refc::*;
use bytes::Bytes;
use http::{HeaderMap, HeaderName, HeaderValue, Method, Version};
use http_body::{Body, Frame};
use serde_json::json;
use std::pin::Pin;
use std::sync::atomic::{AtomicUsize, Ordering};
use std::sync::{Arc, Mutex};
use std::task::{Context, Poll};
use tonic::service::interceptor::InterceptedService;
use tonic::Status;
use tower_service::Service;

#[derive(Clone, Debug, PartialEq)]
struct ExtA(u32);
#[derive(Clone, Debug, PartialEq)]
struct ExtB(String);
#[derive(Clone, Debug, PartialEq)]
struct ExtC;
#[derive(Clone, Debug, PartialEq)]
struct ExtD(u64);

pub struct TokenBody {
    id: u64,
    polls: Arc<AtomicUsize>,
    done: bool,
}
impl Body for TokenBody {
    type Data = Bytes;
    type Error = Status;
    fn poll_frame(mut self: Pin<&mut Self>, _: &mut Context<'_>) -> Poll<Option<Result<Frame<Bytes>, Status>>> {
        self.polls.fetch_add(1, Ordering::SeqCst);
        if self.done {
            return Poll::Ready(None);
        }
        self.done = true;
        Poll::Ready(Some(Ok(Frame::data(Bytes::from(self.id.to_be_bytes().to_vec())))))
    }
}

#[derive(Default)]
struct Seen {
    calls: usize,
    uri: String,
    method: String,
    version: String,
    headers: MultiMap,
    ext: (Option<ExtA>, Option<ExtB>, Option<ExtC>, Option<ExtD>),
    body_id: u64,
    body_polls_at_call: usize,
}

#[derive(Clone)]
struct Capture {
    seen: Arc<Mutex<Seen>>,
    resp_id: u64,
}

impl Service<http::Request<TokenBody>> for Capture {
    type Response = http::Response<TokenBody>;
    type Error = Status;
    type Future = std::future::Ready<Result<Self::Response, Status>>;
    fn poll_ready(&mut self, _: &mut Context<'_>) -> Poll<Result<(), Status>> {
        Poll::Ready(Ok(()))
    }
    fn call(&mut self, req: http::Request<TokenBody>) -> Self::Future {
        let mut s = self.seen.lock().unwrap();
        s.calls += 1;
        s.uri = req.uri().to_string();
        s.method = req.method().to_string();
        s.version = format!("{:?}", req.version());
        s.headers = headers_to_multimap(req.headers());
        let e = req.extensions();
        s.ext = (e.get::<ExtA>().cloned(), e.get::<ExtB>().cloned(), e.get::<ExtC>().cloned(), e.get::<ExtD>().cloned());
        s.body_id = req.body().id;
        s.body_polls_at_call = req.body().polls.load(Ordering::SeqCst);
        let mut resp = http::Response::new(TokenBody { id: self.resp_id, polls: Arc::new(AtomicUsize::new(0)), done: false });
        *resp.status_mut() = http::StatusCode::from_u16(200 + (self.resp_id % 5) as u16).unwrap();
        resp.headers_mut().insert("x-resp", HeaderValue::from_str(&self.resp_id.to_string()).unwrap());
        std::future::ready(Ok(resp))
    }
}

#[derive(Clone, Debug)]
enum Action {
    Identity,
    Insert(String, MVal),
    Append(String, MVal),
    Remove(String),
    ExtInsertD(u64),
    ExtRemoveA,
    ExtReplaceA(u32),
    Fresh(String, String),
    Reject { code: i32, message: String, details: Vec<u8>, meta: MetaSpec },
}

const METHODS: &[&str] = &["GET", "POST", "PUT", "DELETE", "HEAD", "OPTIONS", "PATCH", "TRACE", "CONNECT", "FOO"];
const VERSIONS: &[Version] = &[Version::HTTP_09, Version::HTTP_10, Version::HTTP_11, Version::HTTP_2, Version::HTTP_3];
const URIS: &[&str] = &[
    "/pkg.Svc/Method", "/", "/a/b?x=1&y=%20", "http://example.com/pkg.Svc/M", "https://user@host:8443/p/q?z", "/pkg.Svc/M/extra//", "*",
    "http://[::1]:50051/s/m", "/%41/%zz", "/s/m?",
];

pub fn run(cfg: &RunCfg) -> Ctx {
    let mut all = Ctx::new();
    all.merge(par_cases(cfg, "intercept", cfg.n(60_000, 16 * 1_200_000), || (), |_, rng, ctx, _| case(rng, ctx)));
    #[cfg(feature = "full")]
    {
        all.merge(par_cases(cfg, "e2e", cfg.n(3000, 16 * 200_000), || (), |_, rng, ctx, i| e2e_case(rng, ctx, i)));
        for c in 0..3 {
            for s in 0..3 {
                all.floor(&format!("e2e.client{}.server{}", c, s), 3);
            }
        }
    }
    for m in METHODS {
        all.floor(&format!("method.{}", m), 3);
    }
    for a in ["Identity", "Insert", "Append", "Remove", "ExtInsertD", "ExtRemoveA", "ExtReplaceA", "Fresh", "Reject"] {
        all.floor(&format!("action.{}", a), 5);
    }
    all.floor("hdr.reserved_present", 20);
    all
}

fn gen_headers(rng: &mut Rng) -> Vec<(String, Vec<u8>)> {
    let mut v: Vec<(String, Vec<u8>)> = Vec::new();
    let n = rng.urange(0, 8);
    for _ in 0..n {
        match rng.below(4) {
            0 => {
                let k = rng.pick(RESERVED).to_string();
                let val = match k.as_str() {
                    "te" => "trailers".to_string(),
                    "content-type" => "application/grpc".to_string(),
                    "grpc-status" => "7".to_string(),
                    _ => gen_ascii_value(rng, false),
                };
                v.push((k, val.into_bytes()));
            }
            1 => {
                let k = gen_key(rng, true);
                let val = if rng.bool() { b64_encode(&gen_bin_value(rng), rng.bool()).into_bytes() } else { b"!!not-base64".to_vec() };
                v.push((k, val));
            }
            2 if !v.is_empty() => {
                let k = v[rng.usize_below(v.len())].0.clone();
                v.push((k, gen_ascii_value(rng, false).into_bytes()));
            }
            _ => v.push((gen_key(rng, false), gen_ascii_value(rng, false).into_bytes())),
        }
    }
    if rng.chance(1, 3) {
        v.push(("grpc-timeout".into(), b"5S".to_vec()));
    }
    // connection-level names: never sent by an HTTP/2 peer, but an interceptor sits in a tower
    // stack where any `http::Request` can arrive (proxies, HTTP/1.1 grpc-web front ends)
    if rng.chance(1, 8) {
        let k = *rng.pick(&["connection", "keep-alive", "proxy-connection", "transfer-encoding", "upgrade", "host", "content-length", "trailer"]);
        v.push((k.into(), gen_ascii_value(rng, false).into_bytes()));
    }
    v
}

fn case(rng: &mut Rng, ctx: &mut Ctx) {
    let method = *rng.pick(METHODS);
    let version = *rng.pick(VERSIONS);
    let uri = *rng.pick(URIS);
    let hdrs = gen_headers(rng);
    let ext_a = if rng.bool() { Some(ExtA(rng.u64() as u32)) } else { None };
    let ext_b = if rng.bool() { Some(ExtB(rng.unicode(5))) } else { None };
    let ext_c = if rng.bool() { Some(ExtC) } else { None };
    let body_id = rng.u64();
    let existing_keys: Vec<String> = hdrs.iter().map(|h| h.0.clone()).collect();
    let pick_key = |rng: &mut Rng, bin: bool| -> String {
        let same: Vec<&String> = existing_keys.iter().filter(|k| k.ends_with("-bin") == bin).collect();
        if !same.is_empty() && rng.chance(1, 2) { (*rng.pick(&same)).clone() } else { gen_key(rng, bin) }
    };
    let action = match rng.below(11) {
        0 => Action::Identity,
        1 | 2 => {
            let bin = rng.chance(1, 3);
            let k = pick_key(rng, bin);
            Action::Insert(k, if bin { MVal::Bin(gen_bin_value(rng)) } else { MVal::Ascii(gen_ascii_value(rng, false)) })
        }
        3 => {
            let bin = rng.chance(1, 3);
            let k = pick_key(rng, bin);
            Action::Append(k, if bin { MVal::Bin(gen_bin_value(rng)) } else { MVal::Ascii(gen_ascii_value(rng, false)) })
        }
        4 => Action::Remove(if existing_keys.is_empty() || rng.chance(1, 4) { gen_key(rng, false) } else { rng.pick(&existing_keys).clone() }),
        5 => Action::ExtInsertD(rng.u64()),
        6 => Action::ExtRemoveA,
        7 => Action::ExtReplaceA(rng.u64() as u32),
        8 => Action::Fresh(gen_key(rng, false), gen_ascii_value(rng, false)),
        _ => Action::Reject { code: rng.range(0, 16) as i32, message: rng.unicode(20), details: gen_details(rng), meta: gen_meta(rng, 4, false) },
    };
    let aname = format!("{:?}", action).split(|c: char| !c.is_alphanumeric()).next().unwrap().to_string();
    let case_json = json!({"method": method, "version": format!("{:?}", version), "uri": uri,
        "headers": hdrs.iter().map(|(k, v)| json!([k, String::from_utf8_lossy(v)])).collect::<Vec<_>>(),
        "extensions": [ext_a.is_some(), ext_b.is_some(), ext_c.is_some()], "action": format!("{:?}", action)});
    ctx.begin(&format!("{}-{}", aname, method), case_json.clone());
    ctx.count(&format!("method.{}", method));
    ctx.count(&format!("action.{}", aname));
    if hdrs.iter().any(|(k, _)| RESERVED.contains(&k.as_str())) {
        ctx.count("hdr.reserved_present");
    }

    // build request
    let polls = Arc::new(AtomicUsize::new(0));
    let mut req = http::Request::new(TokenBody { id: body_id, polls: polls.clone(), done: false });
    *req.method_mut() = Method::from_bytes(method.as_bytes()).unwrap();
    *req.version_mut() = version;
    *req.uri_mut() = uri.parse().expect("verif-harness-bug: uri");
    let mut orig = HeaderMap::new();
    for (k, v) in &hdrs {
        orig.append(HeaderName::from_bytes(k.as_bytes()).unwrap(), HeaderValue::from_bytes(v).unwrap());
    }
    *req.headers_mut() = orig.clone();
    if let Some(a) = &ext_a {
        req.extensions_mut().insert(a.clone());
    }
    if let Some(b) = &ext_b {
        req.extensions_mut().insert(b.clone());
    }
    if let Some(c) = &ext_c {
        req.extensions_mut().insert(c.clone());
    }

    let seen = Arc::new(Mutex::new(Seen::default()));
    let resp_id = rng.u64() % 1000;
    let act = action.clone();
    let interceptor = move |mut r: tonic::Request<()>| -> Result<tonic::Request<()>, Status> {
        match &act {
            Action::Identity => Ok(r),
            Action::Insert(k, v) => {
                apply(&mut r, k, v, false);
                Ok(r)
            }
            Action::Append(k, v) => {
                apply(&mut r, k, v, true);
                Ok(r)
            }
            Action::Remove(k) => {
                if k.ends_with("-bin") {
                    r.metadata_mut().remove_bin(k.as_str());
                } else {
                    r.metadata_mut().remove(k.as_str());
                }
                Ok(r)
            }
            Action::ExtInsertD(d) => {
                r.extensions_mut().insert(ExtD(*d));
                Ok(r)
            }
            Action::ExtRemoveA => {
                r.extensions_mut().remove::<ExtA>();
                Ok(r)
            }
            Action::ExtReplaceA(a) => {
                r.extensions_mut().insert(ExtA(*a));
                Ok(r)
            }
            Action::Fresh(k, v) => {
                let mut n = tonic::Request::new(());
                apply(&mut n, k, &MVal::Ascii(v.clone()), false);
                n.extensions_mut().insert(ExtD(77));
                Ok(n)
            }
            Action::Reject { code, message, details, meta } => {
                Err(Status::with_details_and_metadata(tonic::Code::from_i32(*code), message.clone(), details.clone().into(), build_meta(meta)))
            }
        }
    };
    let mut svc = InterceptedService::new(Capture { seen: seen.clone(), resp_id }, interceptor);
    let mut ex = Exec::new();
    if !matches!(ex.drive(4, |cx| svc.poll_ready(cx)), Out::Done(Ok(()))) {
        ctx.violation("not-ready", "poll_ready did not pass through".into());
        return;
    }
    let fut = svc.call(req);
    let resp = match ex.block_on(8, fut) {
        Out::Done(Ok(r)) => r,
        Out::Done(Err(e)) => {
            ctx.violation("service-error", format!("call returned Err({:?})", e.code()));
            return;
        }
        _ => {
            ctx.violation("hang", "response future did not complete".into());
            return;
        }
    };
    let s = seen.lock().unwrap();
    let (parts, body) = resp.into_parts();
    let mut body = Box::pin(body);
    // drain response body
    let mut data = Vec::new();
    let mut trailers = None;
    for _ in 0..6 {
        match ex.drive(4, |cx| body.as_mut().poll_frame(cx)) {
            Out::Done(Some(Ok(f))) => {
                if f.is_data() {
                    data.extend_from_slice(&f.into_data().unwrap());
                } else {
                    trailers = f.into_trailers().ok();
                }
            }
            Out::Done(Some(Err(_))) => {
                ctx.violation("body-error", "response body error".into());
                break;
            }
            Out::Done(None) => break,
            _ => {
                ctx.violation("hang", "response body did not complete".into());
                break;
            }
        }
    }

    if let Action::Reject { code, message, details, meta } = &action {
        if s.calls != 0 {
            ctx.violation("reject-reached-inner", "the wrapped service was invoked although the interceptor rejected".into());
        }
        if parts.status != http::StatusCode::OK {
            ctx.violation("reject-http-status", format!("HTTP {}", parts.status));
        }
        if parts.headers.get("content-type").map(|v| v.as_bytes()) != Some(b"application/grpc") {
            ctx.violation("reject-content-type", format!("{:?}", parts.headers.get("content-type")));
        }
        if !data.is_empty() || trailers.is_some() {
            ctx.violation("reject-has-body", "a rejected call's response has a body / trailers (not trailers-only)".into());
        }
        // independent reading of the status headers
        let h = &parts.headers;
        if h.get("grpc-status").map(|v| v.as_bytes().to_vec()) != Some(code.to_string().into_bytes()) {
            ctx.violation("reject-code", format!("grpc-status {:?}, want {}", h.get("grpc-status"), code));
        }
        let got_msg = h.get("grpc-message").map(|v| percent_decode(v.as_bytes())).unwrap_or_default();
        if got_msg != message.as_bytes() {
            ctx.violation("reject-message", "grpc-message differs".into());
        }
        let got_det = h.get("grpc-status-details-bin").and_then(|v| b64_decode(v.as_bytes())).unwrap_or_default();
        if &got_det != details {
            ctx.violation("reject-details", "details differ".into());
        }
        // and tonic's own reading
        match Status::from_header_map(h) {
            Some(st) => {
                if st.code() as i32 != *code || st.message() != message || st.details() != &details[..] {
                    ctx.violation("reject-status-readback", "Status::from_header_map does not give the rejected status".into());
                }
                match meta_multimap(st.metadata()) {
                    Ok(mm) => {
                        let mut mm = mm;
                        mm.remove("content-type");
                        if mm != spec_multimap(meta) {
                            ctx.violation("reject-metadata", "status metadata differs".into());
                        }
                    }
                    Err(e) => ctx.violation("reject-metadata", e),
                }
            }
            None => ctx.violation("reject-status-readback", "no status in the response headers".into()),
        }
    } else {
        if s.calls != 1 {
            ctx.violation("accept-call-count", format!("wrapped service invoked {} times", s.calls));
            return;
        }
        if s.uri != uri.parse::<http::Uri>().unwrap().to_string() {
            ctx.violation("uri-changed", format!("{} -> {}", uri, s.uri));
        }
        if s.method != method {
            ctx.violation("method-changed", format!("{} -> {}", method, s.method));
        }
        if s.version != format!("{:?}", version) {
            ctx.violation("version-changed", format!("{:?} -> {}", version, s.version));
        }
        if s.body_id != body_id {
            ctx.violation("body-swapped", "the wrapped service got a different body".into());
        }
        if s.body_polls_at_call != 0 {
            ctx.violation("body-polled", "the request body was polled before reaching the wrapped service".into());
        }
        // reference application of the action
        let mut want = headers_to_multimap(&orig);
        let mut want_ext = (ext_a.clone(), ext_b.clone(), ext_c.clone(), None::<ExtD>);
        let wire = |v: &MVal| match v {
            MVal::Ascii(s) => s.as_bytes().to_vec(),
            MVal::Bin(b) => b64_encode(b, false).into_bytes(),
        };
        match &action {
            Action::Identity => {}
            Action::Insert(k, v) => {
                want.insert(k.clone(), vec![wire(v)]);
            }
            Action::Append(k, v) => want.entry(k.clone()).or_default().push(wire(v)),
            Action::Remove(k) => {
                want.remove(k);
            }
            Action::ExtInsertD(d) => want_ext.3 = Some(ExtD(*d)),
            Action::ExtRemoveA => want_ext.0 = None,
            Action::ExtReplaceA(a) => want_ext.0 = Some(ExtA(*a)),
            Action::Fresh(k, v) => {
                want = MultiMap::new();
                want.insert(k.clone(), vec![v.as_bytes().to_vec()]);
                want_ext = (None, None, None, Some(ExtD(77)));
            }
            Action::Reject { .. } => unreachable!(),
        }
        if s.headers != want {
            let diff: Vec<String> = want.keys().chain(s.headers.keys()).filter(|k| want.get(*k) != s.headers.get(*k)).cloned().collect();
            ctx.violation("headers-differ", format!("headers seen by the wrapped service differ from the reference on keys {:?}", diff));
        }
        if s.ext != want_ext {
            ctx.violation("extensions-differ", format!("extensions seen {:?}, expected {:?}", s.ext, want_ext));
        }
        // response passes through
        if parts.status.as_u16() != 200 + (resp_id % 5) as u16 || parts.headers.get("x-resp").map(|v| v.as_bytes().to_vec()) != Some(resp_id.to_string().into_bytes()) {
            ctx.violation("response-changed", "the wrapped service's response head was altered".into());
        }
        if data != resp_id.to_be_bytes() {
            ctx.violation("response-body-changed", "the wrapped service's response body was altered".into());
        }
    }
    ctx.fingerprint(
        format!("{}|{}|{:?}|h{}|res{}|e{}{}{}", aname, method, version, hdrs.len().min(4), hdrs.iter().any(|(k, _)| RESERVED.contains(&k.as_str())) as u8, ext_a.is_some() as u8, ext_b.is_some() as u8, ext_c.is_some() as u8),
        !matches!(action, Action::Identity),
    );
    ctx.sample(case_json);
}

fn apply(r: &mut tonic::Request<()>, k: &str, v: &MVal, append: bool) {
    use tonic::metadata::*;
    match v {
        MVal::Ascii(s) => {
            let key = AsciiMetadataKey::from_bytes(k.as_bytes()).expect("verif-harness-bug: key");
            let val = AsciiMetadataValue::try_from(s.as_str()).expect("verif-harness-bug: val");
            if append {
                r.metadata_mut().append(key, val);
            } else {
                r.metadata_mut().insert(key, val);
            }
        }
        MVal::Bin(b) => {
            let key = BinaryMetadataKey::from_bytes(k.as_bytes()).expect("verif-harness-bug: key");
            let val = BinaryMetadataValue::from_bytes(b);
            if append {
                r.metadata_mut().append_bin(key, val);
            } else {
                r.metadata_mut().insert_bin(key, val);
            }
        }
    }
}

// ------------------------------------------------------------------ end to end through generated code

/// Interceptors attached with the generated `with_interceptor` constructors on both sides.
#[cfg(feature = "full")]
pub fn e2e_case(rng: &mut Rng, ctx: &mut Ctx, idx: u64) {
    use crate::pb::verif::{verif_client::VerifClient, verif_server::VerifServer};
    use crate::pb::Msg;
    use crate::svc::*;
    let shape = *rng.pick(&SHAPES);
    let req_meta = gen_meta(rng, 4, false);
    // 0 identity, 1 insert, 2 reject
    let c_act = rng.below(3);
    let s_act = rng.below(3);
    let c_status = gen_status(rng);
    let s_status = gen_status(rng);
    let c_ins = (gen_key(rng, false), gen_ascii_value(rng, false));
    let s_ins = (gen_key(rng, true), gen_bin_value(rng));
    let id = format!("e{}", idx);
    let case_json = json!({"shape": format!("{:?}", shape), "client_interceptor": c_act, "server_interceptor": s_act, "request_meta": meta_json(&req_meta),
        "client_insert": [c_ins.0, c_ins.1], "server_insert": [s_ins.0, short(&s_ins.1)], "client_reject": c_status.json(), "server_reject": s_status.json()});
    ctx.begin(&format!("e2e-c{}-s{}", c_act, s_act), case_json.clone());
    ctx.count(&format!("e2e.client{}.server{}", c_act, s_act));
    let handler = Handler::new();
    let script = Script { msgs: vec![Msg { data: vec![5; 9], seq: 3, tag: "r".into() }], ..Default::default() };
    handler.set_script(&id, script.clone());
    let (ss, si) = (s_status.clone(), s_ins.clone());
    let server = VerifServer::with_interceptor(handler.clone(), move |mut r: tonic::Request<()>| match s_act {
        1 => {
            apply(&mut r, &si.0, &MVal::Bin(si.1.clone()), true);
            Ok(r)
        }
        2 => Err(ss.build()),
        _ => Ok(r),
    });
    let lb = Loopback::new(server, rng.u64(), 1 << 20);
    let tap = lb.tap.clone();
    let (cs, ci) = (c_status.clone(), c_ins.clone());
    let mut client = VerifClient::with_interceptor(lb, move |mut r: tonic::Request<()>| match c_act {
        1 => {
            apply(&mut r, &ci.0, &MVal::Ascii(ci.1.clone()), true);
            Ok(r)
        }
        2 => Err(cs.build()),
        _ => Ok(r),
    });
    let spec = CallSpec { id: id.clone(), shape, req_msgs: vec![Msg { data: vec![1], seq: 1, tag: String::new() }], req_meta: req_meta.clone(), req_pend: vec![], req_gaps_ms: vec![], timeout: None, pingpong: None };
    let mut ex = Exec::new();
    let view = match ex.block_on(200_000, do_call(&mut client, &spec, None)) {
        Out::Done(v) => v,
        _ => {
            ctx.violation("hang", "call did not complete".into());
            return;
        }
    };
    let log = handler.log(&id);
    let check_status = |ctx: &mut Ctx, want: &StatusSpec, who: &str| {
        let mut s2 = script.clone();
        s2.end = Some(want.clone());
        s2.fail_up_front = true;
        for (d, what) in judge_call(shape, &s2, &view) {
            ctx.violation(&format!("{}-reject-{}", who, d), format!("{} interceptor rejected, but: {}", who, what));
        }
    };
    if c_act == 2 {
        if !tap.lock().unwrap().is_empty() {
            ctx.violation("client-reject-sent", "the request was sent although the client interceptor rejected it".into());
        }
        if log.entered != 0 {
            ctx.violation("client-reject-reached-handler", "handler ran".into());
        }
        check_status(ctx, &c_status, "client");
    } else if s_act == 2 {
        if log.entered != 0 {
            ctx.violation("server-reject-reached-handler", "the handler ran although the server interceptor rejected the call".into());
        }
        check_status(ctx, &s_status, "server");
    } else {
        for (d, what) in judge_call(shape, &script, &view) {
            ctx.violation(&format!("accept-{}", d), what);
        }
        let mut want = req_meta.clone();
        if c_act == 1 {
            want.push((c_ins.0.clone(), MVal::Ascii(c_ins.1.clone())));
        }
        if s_act == 1 {
            want.push((s_ins.0.clone(), MVal::Bin(s_ins.1.clone())));
        }
        if log.entered != 1 {
            ctx.violation("accept-handler-count", format!("handler entered {} times", log.entered));
        } else if let Err(e) = multimap_includes(&log.req_meta, &spec_multimap(&want)) {
            ctx.violation("accept-metadata", format!("handler metadata: {}", e));
        }
    }
    ctx.fingerprint(format!("e2e|{:?}|c{}|s{}", shape, c_act, s_act), c_act + s_act > 0);
    ctx.sample(case_json);
}
