//! C14 — a channel always answers and recovers when the peer comes back.
use crate::ctx::*;
use crate::pb::verif::{verif_client::VerifClient, verif_server::VerifServer};
use crate::pb::Msg;
use crate::prng::Rng;
use crate::svc::*;
use crate::transport::*;
use hyper_util::rt::TokioIo;
use serde_json::json;
use std::collections::VecDeque;
use std::sync::{Arc, Mutex};
use std::time::Duration;
use tokio::sync::mpsc;
use tonic::transport::{Endpoint, Server};

pub struct Incoming(pub mpsc::UnboundedReceiver<Result<PipeEnd, std::io::Error>>);
impl tokio_stream::Stream for Incoming {
    type Item = Result<PipeEnd, std::io::Error>;
    fn poll_next(mut self: std::pin::Pin<&mut Self>, cx: &mut std::task::Context<'_>) -> std::task::Poll<Option<Self::Item>> {
        self.0.poll_recv(cx)
    }
}

#[derive(Clone, Copy, Debug, PartialEq)]
pub enum Op {
    Call,
    Kill,
    TwoCalls,
    /// two calls issued at the same instant on two clones of the client
    Pair,
    /// a slow call whose connection the peer drops while it is in flight
    CallKilled,
    /// a call whose deadline has already expired when it is issued (`grpc-timeout: 0n`)
    CallZero,
}

/// Connector wrapper that notes every `call` not preceded by a `poll_ready` that returned
/// `Ready(Ok)` (tower's contract; connectors built from `RateLimit`, `ConcurrencyLimit`, `Buffer`
/// rely on it and panic otherwise).
#[derive(Clone)]
struct Strict<S> {
    inner: S,
    ready: bool,
    unready_calls: Arc<std::sync::atomic::AtomicU64>,
}
impl<S, R> tower::Service<R> for Strict<S>
where
    S: tower::Service<R>,
{
    type Response = S::Response;
    type Error = S::Error;
    type Future = S::Future;
    fn poll_ready(&mut self, cx: &mut std::task::Context<'_>) -> std::task::Poll<Result<(), S::Error>> {
        let r = self.inner.poll_ready(cx);
        if let std::task::Poll::Ready(Ok(())) = &r {
            self.ready = true;
        }
        r
    }
    fn call(&mut self, req: R) -> S::Future {
        if !self.ready {
            self.unready_calls.fetch_add(1, std::sync::atomic::Ordering::SeqCst);
        }
        self.ready = false;
        self.inner.call(req)
    }
}

struct ConnState {
    outcomes: VecDeque<bool>,
    invocations: u64,
    consumed: Vec<bool>,
    live: Option<PipeHandle>,
    pipes: u64,
}

pub fn run(cfg: &RunCfg) -> Ctx {
    let mut all = Ctx::new();
    // exhaustive over short scripts: outcomes in {F,O}^<=3 x ops in {Call,Kill}^<=4 x lazy/eager
    let mut scripts: Vec<(bool, Vec<bool>, Vec<Op>)> = Vec::new();
    // quick: outcomes {F,O}^<=3 x ops {Call,Kill}^<=4 (1800 scripts);
    // thorough: outcomes {F,O}^<=5 x ops {Call,Kill,TwoCalls}^<=6 (137592 scripts)
    let (max_o, max_p, alphabet): (usize, usize, &[Op]) = if cfg.thorough { (5, 6, &[Op::Call, Op::Kill, Op::TwoCalls]) } else { (3, 4, &[Op::Call, Op::Kill]) };
    for lazy in [true, false] {
        for olen in 0..=max_o {
            for obits in 0..(1u32 << olen) {
                let outcomes: Vec<bool> = (0..olen).map(|i| obits >> i & 1 == 1).collect();
                for plen in 1..=max_p {
                    let base = alphabet.len() as u32;
                    for code in 0..base.pow(plen as u32) {
                        let mut c = code;
                        let ops: Vec<Op> = (0..plen)
                            .map(|_| {
                                let o = alphabet[(c % base) as usize];
                                c /= base;
                                o
                            })
                            .collect();
                        scripts.push((lazy, outcomes.clone(), ops));
                    }
                }
            }
        }
    }
    let n_ex = scripts.len() as u64;
    let take = n_ex; // the enumerated space is small enough to walk completely in both tiers
    let scripts = Arc::new(scripts);
    let sc = scripts.clone();
    let thorough = cfg.thorough;
    all.merge(par_cases(cfg, "enumerated", take, || (), move |_, rng, ctx, i| {
        // quick: a seeded sample of the enumerated space; thorough: all of it
        let _ = thorough;
        let idx = i as usize;
        let (lazy, o, p) = sc[idx].clone();
        scenario(rng, ctx, lazy, o, p, 0);
    }));
    all.merge(par_cases(cfg, "sampled", cfg.n(1200, 16 * 20_000), || (), |_, rng, ctx, _| {
        let lazy = rng.bool();
        let o: Vec<bool> = (0..rng.urange(0, 8)).map(|_| rng.chance(3, 5)).collect();
        let p: Vec<Op> = (0..rng.urange(1, 10)).map(|_| match rng.below(10) { 0 | 1 => Op::Kill, 2 => Op::TwoCalls, 3 => Op::Pair, 4 => Op::CallKilled, 5 => Op::CallZero, _ => Op::Call }).collect();
        // endpoint options that select other code paths of the channel construction
        let opts = rng.below(16) as u32 | if rng.chance(1, 8) { 0x101 } else { 0 };
        scenario(rng, ctx, lazy, o, p, opts);
    }));
    if !crate::ctx::small() {
        all.merge(par_cases(cfg, "sockets", cfg.n(30, 16 * 60), || (), |_, _rng, ctx, i| sockets_case(ctx, i)));
        all.merge(par_cases(cfg, "executor", cfg.n(16, 16 * 16), || (), |_, _rng, ctx, i| executor_case(ctx, i)));
        all.floor("executor.scripts", 8);
        if all.counters.get("sockets.unavailable").copied().unwrap_or(0) == 0 {
            all.floor("sockets.balance-list.connect_timeout", 3);
        }
    }
    all.floor("opt.connect_timeout", 10);
    all.floor("model.call_ok_on_live_connection", 10);
    all.floor("model.call_reconnected", 10);
    all.floor("model.call_failed_unavailable", 10);
    all.floor("model.recovered_after_failure", 5);
    all.floor("model.eager_initial_failure", 3);
    all.floor("model.kills", 10);
    all.floor("model.calls_killed_in_flight", 5);
    all.floor("model.concurrent_pairs", 10);
    all.floor("model.zero_timeout_calls", 10);
    all.floor("model.dead_on_arrival_peer", 5);
    all
}

fn scenario(rng: &mut Rng, ctx: &mut Ctx, lazy: bool, outcomes: Vec<bool>, ops: Vec<Op>, opts: u32) {
    // sampled scripts only (opts != 0): one in eight runs against a peer whose connections are
    // dead on arrival
    let drop_mode = opts != 0 && opts & 0x100 != 0;
    let outcomes = if drop_mode { vec![true; 4000] } else { outcomes };
    if drop_mode {
        ctx.count("model.dead_on_arrival_peer");
    }
    if opts & 1 != 0 {
        ctx.count("opt.connect_timeout");
    }
    let case_json = json!({"lazy": lazy, "endpoint_options_mask": opts, "connect_outcomes": outcomes.iter().map(|b| if *b {"ok"} else {"fail"}).collect::<Vec<_>>(),
        "ops": ops.iter().map(|o| format!("{:?}", o)).collect::<Vec<_>>()});
    ctx.begin(if lazy { "lazy" } else { "eager" }, case_json.clone());
    let seed = rng.u64();
    let pcfg = if rng.bool() { PipeCfg::plain() } else { PipeCfg::gen(rng) };
    let rt = paused_rt();
    let conn_count = Arc::new(std::sync::atomic::AtomicU64::new(0));
    let conn_count2 = conn_count.clone();
    let unready = Arc::new(std::sync::atomic::AtomicU64::new(0));
    let unready2 = unready.clone();
    let mut states: Vec<String> = Vec::new();
    let ctx_codes: Mutex<Vec<String>> = Mutex::new(Vec::new());
    let res: Result<(), (String, String)> = rt.block_on(async {
        let (conn_tx, conn_rx) = mpsc::unbounded_channel();
        let handler = Handler::new();
        let h2 = handler.clone();
        let server = tokio::spawn(async move {
            let _ = Server::builder().add_service(VerifServer::new(h2)).serve_with_incoming(Incoming(conn_rx)).await;
        });
        let st = Arc::new(Mutex::new(ConnState { outcomes: outcomes.iter().copied().collect(), invocations: 0, consumed: vec![], live: None, pipes: 0 }));
        let st2 = st.clone();
        let connector = tower::service_fn(move |_uri: http::Uri| {
            let st = st2.clone();
            let tx = conn_tx.clone();
            let cc = conn_count2.clone();
            async move {
                let mut s = st.lock().unwrap();
                s.invocations += 1;
                cc.fetch_add(1, std::sync::atomic::Ordering::SeqCst);
                if s.invocations > 2000 {
                    // a reconnect storm: refuse, so that the run ends and the count is reported
                    s.consumed.push(false);
                    return Err(std::io::Error::other("verif: connector invoked more than 2000 times"));
                }
                let ok = s.outcomes.pop_front().unwrap_or(false);
                s.consumed.push(ok);
                if ok {
                    s.pipes += 1;
                    let (a, b, h) = pipe(&format!("p{}", s.pipes), pcfg, Rng::new(seed ^ s.pipes), None);
                    if drop_mode {
                        // the peer accepts and hangs up at once (a dying load balancer): the
                        // connector succeeded, the connection is dead on arrival
                        drop(b);
                    } else {
                        let _ = tx.send(Ok(b));
                    }
                    s.live = Some(h);
                    Ok::<_, std::io::Error>(TokioIo::new(a))
                } else {
                    // how the attempt failed is the connector's business: while no connection can
                    // be made the call is UNAVAILABLE whatever the I/O error kind
                    let kinds = [std::io::ErrorKind::ConnectionRefused, std::io::ErrorKind::TimedOut, std::io::ErrorKind::NotFound, std::io::ErrorKind::PermissionDenied, std::io::ErrorKind::ConnectionReset, std::io::ErrorKind::AddrNotAvailable, std::io::ErrorKind::Other, std::io::ErrorKind::UnexpectedEof];
                    let k = kinds[((seed >> 7) as usize + s.invocations as usize) % kinds.len()];
                    Err(std::io::Error::new(k, "scripted connect failure"))
                }
            }
        });
        let connector = Strict { inner: connector, ready: false, unready_calls: unready.clone() };
        let mut ep = Endpoint::from_static("http://verif.test:50051");
        if opts & 1 != 0 {
            ep = ep.connect_timeout(Duration::from_secs(3));
        }
        if opts & 2 != 0 {
            ep = ep.timeout(Duration::from_secs(30));
        }
        if opts & 4 != 0 {
            ep = ep.concurrency_limit(4);
        }
        if opts & 8 != 0 {
            ep = ep.http2_keep_alive_interval(Duration::from_secs(20)).keep_alive_while_idle(true);
        }
        let mut connected; // model: an established, un-killed connection exists
        let channel = if lazy {
            connected = false;
            ep.connect_with_connector_lazy(connector)
        } else {
            let first = outcomes.first().copied().unwrap_or(false);
            match tokio::time::timeout(Duration::from_secs(60), ep.connect_with_connector(connector)).await {
                Err(_) => return Err(("hang".into(), "eager connect did not resolve within 60 virtual seconds".into())),
                Ok(Ok(ch)) => {
                    if !first {
                        return Err(("eager-connect-succeeded".into(), "eager connect returned Ok although the first connection attempt failed".into()));
                    }
                    connected = true;
                    ch
                }
                Ok(Err(e)) => {
                    let inv = st.lock().unwrap().invocations;
                    if first {
                        return Err(("eager-connect-failed".into(), format!("eager connect failed although the attempt succeeded: {}", e)));
                    }
                    if inv != 1 {
                        return Err(("eager-failure-not-immediate".into(), format!("eager connect failed after {} connector invocations (want 1)", inv)));
                    }
                    states.push("eager-initial-failure".into());
                    server.abort();
                    return Ok(());
                }
            }
        };
        let mut client = VerifClient::new(channel);
        handler.set_script("slow", crate::svc::Script { latency_ms: 50, ..Default::default() });
        let mut had_failure = false;
        let mut call_no = 0;
        if drop_mode {
            // no model here: whatever the channel makes of such a peer, every call gets an answer
            // (not Ok: nobody serves) in bounded time and bounded connection attempts
            for i in 0..ops.len().min(4) {
                let r = tokio::time::timeout(Duration::from_secs(60), client.unary(tonic::Request::new(Msg { data: vec![9], seq: i as u64, tag: String::new() }))).await;
                match r {
                    Err(_) => return Err(("hang".into(), format!("call {} did not resolve within 60 virtual seconds against a peer that accepts connections and drops them at once", i + 1))),
                    Ok(Ok(_)) => return Err(("ok-without-connection".into(), "a call succeeded although every connection is dropped by the peer on arrival".into())),
                    Ok(Err(_)) => states.push("dead-on-arrival".into()),
                }
                quiesce().await;
            }
            drop(client);
            server.abort();
            return Ok(());
        }
        for op in &ops {
            match op {
                Op::Kill => {
                    let live = st.lock().unwrap().live.take();
                    if let Some(h) = live {
                        if connected {
                            h.kill();
                            states.push("kill".into());
                        }
                    }
                    connected = false;
                    quiesce().await;
                }
                Op::Pair => {
                    let before = st.lock().unwrap().invocations;
                    let entered_before = handler.total_entered.load(std::sync::atomic::Ordering::SeqCst);
                    let mut c2 = client.clone();
                    call_no += 2;
                    let (m1, m2) = (Msg { data: vec![1], seq: call_no - 1, tag: String::new() }, Msg { data: vec![2], seq: call_no, tag: String::new() });
                    let both = async { tokio::join!(client.unary(tonic::Request::new(m1)), c2.unary(tonic::Request::new(m2))) };
                    let (r1, r2) = match tokio::time::timeout(Duration::from_secs(60), both).await {
                        Err(_) => return Err(("hang".into(), format!("concurrent calls {}/{} did not both resolve within 60 virtual seconds", call_no - 1, call_no))),
                        Ok(x) => x,
                    };
                    let consumed: Vec<bool> = {
                        let s = st.lock().unwrap();
                        s.consumed[before as usize..].to_vec()
                    };
                    let failed_attempts = consumed.iter().filter(|o| !**o).count();
                    let mut oks = 0u64;
                    let mut errs = 0usize;
                    for r in [&r1, &r2] {
                        match r {
                            Ok(_) => oks += 1,
                            Err(s) => {
                                errs += 1;
                                if s.code() != tonic::Code::Unavailable {
                                    return Err(("wrong-code".into(), format!("one of two concurrent calls failed with {:?} ({}); want UNAVAILABLE", s.code(), s.message())));
                                }
                            }
                        }
                    }
                    if !connected && consumed.is_empty() {
                        return Err(("no-attempt-while-disconnected".into(), format!("two concurrent calls got {} Ok / {} Err without any connection attempt while no connection exists", oks, errs)));
                    }
                    if errs > failed_attempts {
                        return Err(("failure-replayed".into(), format!("two concurrent calls: {} failed but only {} connection attempt(s) failed meanwhile (attempt outcomes {:?}, connection existed before: {})", errs, failed_attempts, consumed, connected)));
                    }
                    if oks > 0 && !connected && !consumed.iter().any(|o| *o) {
                        return Err(("ok-without-connection".into(), "a concurrent call succeeded although every attempt failed".into()));
                    }
                    let entered = handler.total_entered.load(std::sync::atomic::Ordering::SeqCst);
                    if entered != entered_before + oks {
                        return Err(("ok-without-handler".into(), format!("{} concurrent calls returned Ok but the handler ran {} times", oks, entered - entered_before)));
                    }
                    if errs > 0 {
                        had_failure = true;
                    }
                    connected = match consumed.last() {
                        Some(o) => *o,
                        None => connected,
                    };
                    states.push(format!("pair-{}ok-{}err", oks, errs));
                    quiesce().await;
                }
                Op::CallKilled => {
                    call_no += 1;
                    let before = st.lock().unwrap().invocations;
                    let mut req = tonic::Request::new(Msg { data: vec![4, 5], seq: call_no, tag: String::new() });
                    req.metadata_mut().insert("x-script", "slow".parse().unwrap());
                    let st3 = st.clone();
                    let killer = async {
                        tokio::time::sleep(Duration::from_millis(20)).await;
                        let live = st3.lock().unwrap().live.take();
                        match live {
                            Some(h) => {
                                h.kill();
                                true
                            }
                            None => false,
                        }
                    };
                    let both = async { tokio::join!(client.unary(req), killer) };
                    let (r, killed) = match tokio::time::timeout(Duration::from_secs(60), both).await {
                        Err(_) => return Err(("hang".into(), format!("call {} whose connection was dropped in flight did not resolve within 60 virtual seconds", call_no))),
                        Ok(x) => x,
                    };
                    let consumed: Vec<bool> = {
                        let s = st.lock().unwrap();
                        s.consumed[before as usize..].to_vec()
                    };
                    if !connected && consumed.is_empty() {
                        return Err(("no-attempt-while-disconnected".into(), format!("call {} got {:?} without any connection attempt while no connection exists", call_no, r.as_ref().map(|_| "Ok").map_err(|s| s.code()))));
                    }
                    let had_conn = connected || consumed.iter().any(|o| *o);
                    match (&r, had_conn, killed) {
                        (Ok(_), _, true) => return Err(("ok-on-dead-connection".into(), format!("call {} returned Ok although its connection was dropped 30 ms before the handler answered", call_no))),
                        (Ok(_), false, _) => return Err(("ok-without-connection".into(), format!("call {} succeeded although every attempt failed", call_no))),
                        (Ok(_), true, false) => states.push("ok-live".into()),
                        (Err(s), false, _) => {
                            if s.code() != tonic::Code::Unavailable {
                                return Err(("wrong-code".into(), format!("call {} failed with {:?} ({}) while no connection can be made; want UNAVAILABLE", call_no, s.code(), s.message())));
                            }
                            had_failure = true;
                            states.push("unavailable".into());
                        }
                        (Err(s), true, true) => {
                            ctx_codes.lock().unwrap().push(format!("{:?}", s.code()));
                            states.push("killed-in-flight".into());
                        }
                        (Err(s), true, false) => return Err(("live-connection-call-failed".into(), format!("call {} on an established connection failed: {:?} {}", call_no, s.code(), s.message()))),
                    }
                    connected = !killed && consumed.last().copied().unwrap_or(connected);
                    quiesce().await;
                }
                Op::CallZero => {
                    // the call itself may end any definite way (expired, or UNAVAILABLE when the
                    // attempt it triggered failed); what matters is that it ends, and that whatever
                    // it did to the connection is what the following calls find
                    call_no += 1;
                    let before = st.lock().unwrap().invocations;
                    let mut req = tonic::Request::new(Msg { data: vec![7], seq: call_no, tag: String::new() });
                    req.set_timeout(Duration::ZERO);
                    let r = match tokio::time::timeout(Duration::from_secs(60), client.unary(req)).await {
                        Err(_) => return Err(("hang".into(), format!("call {} (deadline already expired) did not resolve within 60 virtual seconds", call_no))),
                        Ok(r) => r,
                    };
                    let consumed: Vec<bool> = {
                        let s = st.lock().unwrap();
                        s.consumed[before as usize..].to_vec()
                    };
                    match &r {
                        Ok(_) if !connected && !consumed.iter().any(|o| *o) => return Err(("ok-without-connection".into(), format!("call {} succeeded although every attempt failed", call_no))),
                        Ok(_) => {}
                        Err(s) => {
                            ctx_codes.lock().unwrap().push(format!("zero-timeout:{:?}", s.code()));
                            if consumed.iter().any(|o| !*o) {
                                had_failure = true;
                            }
                        }
                    }
                    connected = consumed.last().copied().unwrap_or(connected);
                    states.push("zero-timeout-call".into());
                    quiesce().await;
                }
                Op::Call | Op::TwoCalls => {
                    let reps = if *op == Op::TwoCalls { 2 } else { 1 };
                    for _ in 0..reps {
                        call_no += 1;
                        let before = st.lock().unwrap().invocations;
                        let entered_before = handler.total_entered.load(std::sync::atomic::Ordering::SeqCst);
                        let r = tokio::time::timeout(Duration::from_secs(60), client.unary(tonic::Request::new(Msg { data: vec![1, 2, 3], seq: call_no, tag: String::new() }))).await;
                        let (after, consumed): (u64, Vec<bool>) = {
                            let s = st.lock().unwrap();
                            (s.invocations, s.consumed[before as usize..].to_vec())
                        };
                        let r = match r {
                            Err(_) => return Err(("hang".into(), format!("call {} did not resolve within 60 virtual seconds", call_no))),
                            Ok(r) => r,
                        };
                        let attempts = after - before;
                        // reference model driven by the observed connector invocations
                        if connected && attempts == 0 {
                            match &r {
                                Ok(_) => states.push("ok-live".into()),
                                Err(s) => return Err(("live-connection-call-failed".into(), format!("call {} on an established connection failed: {:?} {}", call_no, s.code(), s.message()))),
                            }
                        } else if attempts == 0 {
                            // disconnected and the channel answered without trying to connect
                            return Err((
                                "no-attempt-while-disconnected".into(),
                                format!("call {} got {:?} without any connection attempt while no connection exists (a stored failure was replayed or the channel is stuck)", call_no, r.as_ref().map(|_| "Ok").map_err(|s| format!("{:?}: {}", s.code(), s.message()))),
                            ));
                        } else if *consumed.last().unwrap() {
                            match &r {
                                Ok(_) => {
                                    connected = true;
                                    states.push(if had_failure { "ok-recovered".into() } else { "ok-reconnected".into() });
                                }
                                Err(s) => return Err(("reachable-but-failed".into(), format!("call {}: the connection attempt succeeded but the call failed: {:?} {}", call_no, s.code(), s.message()))),
                            }
                        } else {
                            match &r {
                                Ok(_) => return Err(("ok-without-connection".into(), format!("call {} succeeded although every attempt failed", call_no))),
                                Err(s) => {
                                    if s.code() != tonic::Code::Unavailable {
                                        return Err(("wrong-code".into(), format!("call {} failed with {:?} ({}) while no connection can be made; want UNAVAILABLE", call_no, s.code(), s.message())));
                                    }
                                    had_failure = true;
                                    connected = false;
                                    states.push("unavailable".into());
                                }
                            }
                        }
                        if r.is_ok() {
                            let entered = handler.total_entered.load(std::sync::atomic::Ordering::SeqCst);
                            if entered != entered_before + 1 {
                                return Err(("ok-without-handler".into(), format!("call {} returned Ok but the handler ran {} times", call_no, entered - entered_before)));
                            }
                        }
                    }
                    quiesce().await;
                }
            }
        }
        drop(client);
        server.abort();
        Ok(())
    });
    drop(rt);
    if let Err((dev, what)) = res {
        ctx.violation(&dev, what);
    }
    if conn_count.load(std::sync::atomic::Ordering::SeqCst) > 2000 {
        ctx.violation("reconnect-storm", "the channel invoked its connector more than 2000 times in one short script".into());
    }
    if unready2.load(std::sync::atomic::Ordering::SeqCst) > 0 {
        ctx.violation("connector-called-unready", format!("the connector was called {} time(s) without a preceding poll_ready that returned Ready(Ok) (a connector that relies on tower's contract panics there and the channel dies)", unready2.load(std::sync::atomic::Ordering::SeqCst)));
    }
    for s in &states {
        match s.as_str() {
            "ok-live" => ctx.count("model.call_ok_on_live_connection"),
            "ok-reconnected" => ctx.count("model.call_reconnected"),
            "ok-recovered" => {
                ctx.count("model.call_reconnected");
                ctx.count("model.recovered_after_failure")
            }
            "unavailable" => ctx.count("model.call_failed_unavailable"),
            "eager-initial-failure" => ctx.count("model.eager_initial_failure"),
            "kill" => ctx.count("model.kills"),
            "zero-timeout-call" => ctx.count("model.zero_timeout_calls"),
            "killed-in-flight" => ctx.count("model.calls_killed_in_flight"),
            x if x.starts_with("pair-") => ctx.count("model.concurrent_pairs"),
            _ => {}
        }
    }
    ctx.add("observed.calls", states.iter().filter(|s| s.starts_with("ok") || *s == "unavailable").count() as u64);
    for c in ctx_codes.lock().unwrap().iter() {
        ctx.distinct("codes_of_calls_killed_in_flight", c);
    }
    let fp = format!("{}|{}", if lazy { "lazy" } else { "eager" }, states.join(">"));
    ctx.distinct("model_state_sequences", &fp);
    let nontrivial = states.iter().any(|s| s == "kill" || s == "unavailable" || s == "eager-initial-failure");
    ctx.fingerprint(fp, nontrivial);
    ctx.sample(case_json);
}

// ------------------------------------------------------------------ real sockets (the entry points that take no connector)

/// `unix:` endpoints through the ordinary `connect_lazy()` / `connect()`, and `Channel::balance_list`
/// over loopback TCP: fail while nothing listens, succeed once the server is there, again after a
/// restart.  Real time (no paused clock: the kernel is in the loop); a call that takes longer than
/// 20 s wall clock where the unchanged code answers in milliseconds is reported as a hang.
/// A custom `Endpoint::executor`: every task gets its own OS thread and a park/unpark waker
/// instead of being spawned on the runtime.  The threads do enter the runtime's *context* (timers
/// and `tokio::spawn` work there): tonic does not promise to run without one — its own
/// `connect_timeout` and keep-alive timers need it — so a change that starts using a Tokio timer
/// in the channel's background work keeps the property (neutral probe C14/n3 does exactly that).
#[derive(Clone)]
struct ThreadExec {
    spawned: Arc<std::sync::atomic::AtomicU64>,
    handle: tokio::runtime::Handle,
}
struct ThreadWaker(std::thread::Thread);
impl std::task::Wake for ThreadWaker {
    fn wake(self: Arc<Self>) {
        self.0.unpark();
    }
}
impl<F> hyper::rt::Executor<F> for ThreadExec
where
    F: std::future::Future + Send + 'static,
    F::Output: Send + 'static,
{
    fn execute(&self, fut: F) {
        self.spawned.fetch_add(1, std::sync::atomic::Ordering::SeqCst);
        let handle = self.handle.clone();
        let _ = std::thread::Builder::new().name("verif-exec".into()).spawn(move || {
            let _ctx = handle.enter();
            let mut fut = Box::pin(fut);
            let waker = std::task::Waker::from(Arc::new(ThreadWaker(std::thread::current())));
            let mut cx = std::task::Context::from_waker(&waker);
            // bounded life: a task that is never woken again ends with the process
            for _ in 0..2_000_000u64 {
                if fut.as_mut().poll(&mut cx).is_ready() {
                    return;
                }
                std::thread::park_timeout(Duration::from_millis(200));
            }
        });
    }
}

/// The fail / recover script once more, on a channel with a custom `Endpoint::executor`.
fn executor_case(ctx: &mut Ctx, i: u64) {
    use std::sync::atomic::Ordering::SeqCst;
    let scripts: [&[bool]; 4] = [&[false, true], &[true], &[false, false, true], &[true, false, true]];
    let outcomes: Vec<bool> = scripts[(i % 4) as usize].to_vec();
    let lazy = (i / 4) % 2 == 0 || !outcomes[0];
    let kill_between = outcomes.len() == 3 && outcomes[0];
    ctx.begin("custom-executor", json!({"connect_outcomes": outcomes.iter().map(|b| if *b {"ok"} else {"fail"}).collect::<Vec<_>>(), "lazy": lazy, "peer_drops_first_connection": kill_between}));
    let rt = match tokio::runtime::Builder::new_current_thread().enable_all().build() {
        Ok(rt) => rt,
        Err(_) => return,
    };
    let spawned = Arc::new(std::sync::atomic::AtomicU64::new(0));
    let exec = ThreadExec { spawned: spawned.clone(), handle: rt.handle().clone() };
    let handler = Handler::new();
    let h2 = handler.clone();
    let res: Result<Vec<String>, (String, String)> = rt.block_on(async move {
        let limit = Duration::from_secs(20);
        let (conn_tx, conn_rx) = mpsc::unbounded_channel();
        let server = tokio::spawn(async move {
            let _ = Server::builder().add_service(VerifServer::new(h2)).serve_with_incoming(Incoming(conn_rx)).await;
        });
        let st = Arc::new(Mutex::new(ConnState { outcomes: outcomes.iter().copied().collect(), invocations: 0, consumed: vec![], live: None, pipes: 0 }));
        let st2 = st.clone();
        let connector = tower::service_fn(move |_uri: http::Uri| {
            let st = st2.clone();
            let tx = conn_tx.clone();
            async move {
                let mut s = st.lock().unwrap();
                s.invocations += 1;
                if s.invocations > 200 {
                    return Err(std::io::Error::other("verif: connector invoked more than 200 times"));
                }
                let ok = s.outcomes.pop_front().unwrap_or(false);
                s.consumed.push(ok);
                if ok {
                    s.pipes += 1;
                    let (a, b, h) = pipe(&format!("x{}", s.pipes), PipeCfg::plain(), Rng::new(s.pipes), None);
                    let _ = tx.send(Ok::<_, std::io::Error>(b));
                    s.live = Some(h);
                    Ok::<_, std::io::Error>(TokioIo::new(a))
                } else {
                    Err(std::io::Error::new(std::io::ErrorKind::ConnectionRefused, "scripted connect failure"))
                }
            }
        });
        let ep = Endpoint::from_static("http://verif.test:50051").executor(exec);
        let channel = if lazy {
            ep.connect_with_connector_lazy(connector)
        } else {
            match tokio::time::timeout(limit, ep.connect_with_connector(connector)).await {
                Err(_) => return Err(("hang".into(), "eager connect did not resolve within 20 s".into())),
                Ok(Err(e)) => return Err(("eager-connect-failed".into(), format!("eager connect failed although the attempt succeeded: {}", e))),
                Ok(Ok(ch)) => ch,
            }
        };
        let mut client = VerifClient::new(channel);
        let mut steps = Vec::new();
        let mut connected = !lazy;
        let total_calls = outcomes.len() + 1;
        for call_no in 1..=total_calls {
            if kill_between && call_no == 2 {
                if let Some(h) = st.lock().unwrap().live.take() {
                    h.kill();
                    connected = false;
                    tokio::time::sleep(Duration::from_millis(50)).await;
                }
            }
            let before = st.lock().unwrap().consumed.len();
            let r = match tokio::time::timeout(limit, client.unary(tonic::Request::new(Msg { data: vec![3; 8], seq: call_no as u64, tag: String::new() }))).await {
                Err(_) => return Err(("hang".into(), format!("call {} did not resolve within 20 s", call_no))),
                Ok(r) => r,
            };
            let consumed: Vec<bool> = st.lock().unwrap().consumed[before..].to_vec();
            let reachable = consumed.last().copied().unwrap_or(connected);
            match (&r, reachable) {
                (Ok(_), true) => {
                    connected = true;
                    steps.push("ok".to_string());
                }
                (Ok(_), false) => return Err(("ok-without-connection".into(), format!("call {} succeeded although no connection could be made", call_no))),
                (Err(s), true) => return Err(("reachable-but-failed".into(), format!("call {}: a connection {} but the call failed: {:?} {}", call_no, if consumed.is_empty() { "exists" } else { "was made" }, s.code(), s.message()))),
                (Err(s), false) => {
                    if s.code() != tonic::Code::Unavailable {
                        return Err(("wrong-code".into(), format!("call {} failed with {:?} ({}) while no connection can be made; want UNAVAILABLE", call_no, s.code(), s.message())));
                    }
                    connected = false;
                    steps.push("unavailable".to_string());
                }
            }
        }
        drop(client);
        server.abort();
        Ok(steps)
    });
    drop(rt);
    match res {
        Err((dev, what)) => ctx.violation(&dev, what),
        Ok(steps) => {
            ctx.count("executor.scripts");
            ctx.add("observed.tasks_given_to_custom_executor", spawned.load(SeqCst));
            let _ = handler;
            ctx.fingerprint(format!("exec|{}|{}", i % 8, steps.join(">")), true);
        }
    }
}

fn sockets_case(ctx: &mut Ctx, i: u64) {
    use std::sync::atomic::Ordering::SeqCst;
    let kind = ["uds-lazy", "uds-eager", "balance-list"][(i % 3) as usize];
    ctx.begin(kind, json!({"kind": kind}));
    let rt = match tokio::runtime::Builder::new_current_thread().enable_all().build() {
        Ok(rt) => rt,
        Err(_) => {
            ctx.count("sockets.unavailable");
            return;
        }
    };
    let dir = format!("{}/c14-sock-{}-{}", std::env::var("VERIF_SCRATCH").unwrap_or_else(|_| "/verif/target".into()), std::process::id(), i);
    let _ = std::fs::create_dir_all(&dir);
    let path = format!("{}/s.sock", dir);
    let handler = Handler::new();
    let res: Result<Vec<String>, (String, String)> = rt.block_on(async {
        let mut steps: Vec<String> = Vec::new();
        let limit = Duration::from_secs(20);
        // a server that can be started and stopped
        enum Srv {
            Uds(String),
            Tcp(u16),
        }
        type Running = (tokio::task::JoinHandle<()>, tokio::sync::oneshot::Sender<()>);
        let start = |h: Handler, s: &Srv| -> Result<Running, String> {
            match s {
                Srv::Uds(p) => {
                    let _ = std::fs::remove_file(p);
                    let l = tokio::net::UnixListener::bind(p).map_err(|e| format!("bind {}: {}", p, e))?;
                    let incoming = futures_util::stream::unfold(l, |l| async move {
                        let r = l.accept().await.map(|(s, _)| s);
                        Some((r, l))
                    });
                    let (tx, rx) = tokio::sync::oneshot::channel::<()>();
                    Ok((
                        tokio::spawn(async move {
                            let _ = Server::builder().add_service(VerifServer::new(h)).serve_with_incoming_shutdown(incoming, async move { let _ = rx.await; }).await;
                        }),
                        tx,
                    ))
                }
                Srv::Tcp(port) => {
                    let l = std::net::TcpListener::bind(("127.0.0.1", *port)).map_err(|e| format!("bind 127.0.0.1:{}: {}", port, e))?;
                    l.set_nonblocking(true).map_err(|e| e.to_string())?;
                    let l = tokio::net::TcpListener::from_std(l).map_err(|e| e.to_string())?;
                    let incoming = futures_util::stream::unfold(l, |l| async move {
                        let r = l.accept().await.map(|(s, _)| s);
                        Some((r, l))
                    });
                    let (tx, rx) = tokio::sync::oneshot::channel::<()>();
                    Ok((
                        tokio::spawn(async move {
                            let _ = Server::builder().add_service(VerifServer::new(h)).serve_with_incoming_shutdown(incoming, async move { let _ = rx.await; }).await;
                        }),
                        tx,
                    ))
                }
            }
        };
        let srv = if kind == "balance-list" {
            // a port nobody listens on: bind, note, release.  The kernel may hand a released port
            // to the next asker, so a port once used by a case of this process is never taken by
            // another (cases run in parallel and each closes and re-opens its port)
            static CLAIMED: Mutex<Vec<u16>> = Mutex::new(Vec::new());
            let mut picked = None;
            for _ in 0..64 {
                let p = std::net::TcpListener::bind("127.0.0.1:0").and_then(|l| l.local_addr()).map_err(|e| ("sockets-unavailable".to_string(), e.to_string()))?.port();
                let mut c = CLAIMED.lock().unwrap();
                if !c.contains(&p) {
                    c.push(p);
                    picked = Some(p);
                    break;
                }
            }
            match picked {
                Some(p) => Srv::Tcp(p),
                None => return Err(("sockets-unavailable".to_string(), "no unclaimed loopback port".to_string())),
            }
        } else {
            Srv::Uds(path.clone())
        };
        let mut running: Option<Running> = None;
        // eager UDS channels need the server first
        if kind == "uds-eager" {
            running = Some(start(handler.clone(), &srv).map_err(|e| ("sockets-unavailable".to_string(), e))?);
        }
        let mut with_connect_timeout = false;
        let channel = match &srv {
            Srv::Uds(p) => {
                let ep = Endpoint::from_shared(format!("unix://{}", p)).map_err(|e| ("harness".to_string(), e.to_string()))?;
                if kind == "uds-eager" {
                    match tokio::time::timeout(limit, ep.connect()).await {
                        Err(_) => return Err(("hang".into(), "eager connect to a listening unix socket did not resolve within 20 s".into())),
                        Ok(Err(e)) => return Err(("eager-connect-failed".into(), format!("eager connect to a listening unix socket failed: {}", e))),
                        Ok(Ok(ch)) => ch,
                    }
                } else {
                    ep.connect_lazy()
                }
            }
            Srv::Tcp(port) => {
                let mut ep = Endpoint::from_shared(format!("http://127.0.0.1:{}", port)).map_err(|e| ("harness".to_string(), e.to_string()))?;
                // every other balanced case bounds its connection attempts: the option must not
                // change what a call sees while the endpoint is down at its first attempt
                if (i / 3) % 2 == 1 {
                    ep = ep.connect_timeout(Duration::from_secs(5));
                    with_connect_timeout = true;
                }
                tonic::transport::Channel::balance_list(vec![ep].into_iter())
            }
        };
        let mut client = VerifClient::new(channel);
        let mut n = 0u64;
        // plan: (server up?) per call
        let plan: &[bool] = if kind == "uds-eager" { &[true, false, true, true] } else { &[false, false, true, true, false, true] };
        for up in plan {
            match (*up, running.is_some()) {
                (true, false) => {
                    running = Some(start(handler.clone(), &srv).map_err(|e| ("sockets-unavailable".to_string(), e))?);
                    tokio::time::sleep(Duration::from_millis(20)).await;
                }
                (false, true) => {
                    // a real shutdown: the listener goes away and the open connections are closed
                    let (task, stop) = running.take().unwrap();
                    let _ = stop.send(());
                    if tokio::time::timeout(Duration::from_secs(10), task).await.is_err() {
                        return Err(("sockets-unavailable".into(), "the server did not shut down within 10 s".into()));
                    }
                    if let Srv::Uds(p) = &srv {
                        let _ = std::fs::remove_file(p);
                    }
                    tokio::time::sleep(Duration::from_millis(50)).await;
                }
                _ => {}
            }
            n += 1;
            let before = handler.total_entered.load(SeqCst);
            // the first call after the peer went away may still find the old connection and fail
            // in any way; what is judged is the state the channel settles in
            let mut last = None;
            for attempt in 0..3 {
                let r = tokio::time::timeout(limit, client.unary(tonic::Request::new(Msg { data: vec![7], seq: n, tag: String::new() }))).await;
                match r {
                    Err(_) => return Err(("hang".into(), format!("call {} ({}; server {}) did not resolve within 20 s", n, kind, if *up { "up" } else { "down" }))),
                    Ok(r) => {
                        let ok = r.is_ok();
                        let unavailable = matches!(&r, Err(s) if s.code() == tonic::Code::Unavailable);
                        last = Some(r.map(|_| ()).map_err(|s| (s.code(), s.message().to_string())));
                        // settled: served while up; UNAVAILABLE (or, wrongly, Ok) while down.  A
                        // failure with another code while down is the call that found the old
                        // connection dying under it: ask again
                        if (*up && ok) || (!*up && (ok || unavailable)) {
                            break;
                        }
                    }
                }
                let _ = attempt;
                tokio::time::sleep(Duration::from_millis(30)).await;
            }
            match (up, last.unwrap()) {
                (true, Ok(())) => {
                    if handler.total_entered.load(SeqCst) == before {
                        // answered, but not by this case's server: a foreign process on the port
                        return Err(("sockets-unavailable".into(), format!("call {} was answered by a foreign server", n)));
                    }
                    steps.push("ok".into());
                }
                (true, Err((c, m))) => return Err(("reachable-but-failed".into(), format!("call {} ({}): the server is listening again but three calls in a row failed, last with {:?}: {}", n, kind, c, m))),
                (false, Ok(())) => {
                    if handler.total_entered.load(SeqCst) == before {
                        // somebody else's server answered: another process took the loopback port
                        // this case had released (the port is only reserved within this process)
                        return Err(("sockets-unavailable".into(), "a foreign server answered on the released port".into()));
                    }
                    return Err(("ok-without-connection".into(), format!("call {} succeeded although nothing listens", n)));
                }
                (false, Err((c, m))) => {
                    if c != tonic::Code::Unavailable {
                        return Err(("wrong-code".into(), format!("call {} ({}) failed with {:?} ({}) while nothing listens; want UNAVAILABLE", n, kind, c, m)));
                    }
                    steps.push("unavailable".into());
                }
            }
        }
        if let Some((t, _stop)) = running.take() {
            t.abort();
        }
        if with_connect_timeout {
            steps.insert(0, "connect_timeout".into());
        }
        Ok(steps)
    });
    drop(rt);
    let _ = std::fs::remove_dir_all(&dir);
    match res {
        Err((d, w)) if d == "sockets-unavailable" => {
            let _ = w;
            ctx.count("sockets.unavailable");
        }
        Err((d, w)) => ctx.violation_class(&d, kind, w),
        Ok(steps) => {
            ctx.count(&format!("sockets.{}", kind));
            if steps.first().map(|s| s == "connect_timeout").unwrap_or(false) {
                ctx.count("sockets.balance-list.connect_timeout");
            }
            ctx.distinct("socket_histories", &format!("{}:{}", kind, steps.join(">")));
        }
    }
    ctx.fingerprint(format!("sockets|{}", kind), true);
}
