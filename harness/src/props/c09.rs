//! C09 — deadlines: faithful grpc-timeout encoding, parsing, and shortest-deadline enforcement.
use crate::ctx::*;
use crate::prng::Rng;
use crate::props::c13::{run_scenario, PlannedCall, Scenario, Signal};
use crate::svc::*;
use crate::transport::PipeCfg;
use serde_json::json;
use std::time::Duration;

const UNITS: [(char, u128); 6] = [('H', 3_600_000_000_000), ('M', 60_000_000_000), ('S', 1_000_000_000), ('m', 1_000_000), ('u', 1_000), ('n', 1)];

/// Spec grammar: 1*8DIGIT unit.  Returns nanoseconds.
fn ref_parse_timeout(v: &[u8]) -> Option<u128> {
    if v.len() < 2 || v.len() > 9 {
        return None;
    }
    let (digits, unit) = v.split_at(v.len() - 1);
    if !digits.iter().all(|b| b.is_ascii_digit()) {
        return None;
    }
    let per = UNITS.iter().find(|(c, _)| *c as u8 == unit[0])?.1;
    let n: u128 = std::str::from_utf8(digits).ok()?.parse().ok()?;
    Some(n * per)
}

pub fn run(cfg: &RunCfg) -> Ctx {
    let mut all = Ctx::new();
    all.merge(par_cases(cfg, "encode", cfg.n(60_000, 16 * 12_000_000), || (), |_, rng, ctx, _| encode_case(rng, ctx)));
    all.merge(par_cases(cfg, "parse", cfg.n(60_000, 16 * 12_000_000), || (), |_, rng, ctx, i| parse_case(rng, ctx, i)));
    all.merge(par_cases(cfg, "enforce", cfg.n(1000, 16 * 6000), || (), |_, rng, ctx, _| enforce_case(rng, ctx)));
    for (u, _) in UNITS {
        all.floor(&format!("enc.unit.{}", u), 5);
        all.floor(&format!("parse.unit.{}", u), 48);
    }
    all.floor("parse.malformed", 100);
    all.floor("enforce.finished_before", 10);
    all.floor("enforce.cut_off", 10);
    all.floor("enforce.min_is_header", 5);
    all.floor("enforce.min_is_configured", 5);
    all.floor("enforce.malformed_header", 5);
    all.floor("enforce.zero_timeout", 5);
    all.floor("enforce.second_connection", 50);
    all
}

fn encode_case(rng: &mut Rng, ctx: &mut Ctx) {
    let max_ns: u128 = 99_999_999u128 * 3_600_000_000_000 + 3_599_999_999_999;
    // boundary grid: 10^k-1, 10^k, 10^k+1 of every unit, unit switch points, 0, max; else random magnitude
    let d_ns: u128 = match rng.below(6) {
        0 => {
            let (_, per) = *rng.pick(&UNITS);
            let k = rng.below(9) as u32;
            let base = 10u128.pow(k) * per;
            match rng.below(3) {
                0 => base.saturating_sub(1),
                1 => base,
                _ => base + 1,
            }
        }
        1 => {
            let (_, per) = *rng.pick(&UNITS);
            let base = 99_999_999u128 * per;
            match rng.below(4) {
                0 => base,
                1 => base + 1,
                2 => base + per - 1,
                _ => base + per,
            }
        }
        2 => *rng.pick(&[0u128, 1, 999, 1000, 1001, max_ns, max_ns - 1]),
        _ => {
            let bits = rng.below(79);
            (rng.u64() as u128 * rng.u64() as u128) >> (128 - 1 - bits.min(127)) as u32
        }
    }
    .min(max_ns);
    let d = Duration::new((d_ns / 1_000_000_000) as u64, (d_ns % 1_000_000_000) as u32);
    ctx.begin("duration", json!({"duration_ns": d_ns.to_string()}));
    let mut r = tonic::Request::new(());
    // the request may already carry a timeout (an earlier set_timeout, or metadata copied from
    // another request): the new one replaces it
    match rng.below(6) {
        0 => r.set_timeout(Duration::from_secs(10)),
        1 => {
            r.metadata_mut().insert("grpc-timeout", "7S".parse().unwrap());
        }
        _ => {}
    }
    r.set_timeout(d);
    let n_values = r.metadata().get_all("grpc-timeout").iter().count();
    if n_values != 1 {
        ctx.violation("timeout-values", format!("after set_timeout the request carries {} grpc-timeout values: {:?}", n_values, r.metadata().get_all("grpc-timeout").iter().map(|v| String::from_utf8_lossy(v.as_bytes()).to_string()).collect::<Vec<_>>()));
    }
    let v = match r.metadata().get("grpc-timeout") {
        Some(v) => v.as_bytes().to_vec(),
        None => {
            ctx.violation("no-header", "set_timeout wrote no grpc-timeout".into());
            return;
        }
    };
    let text = String::from_utf8_lossy(&v).to_string();
    match ref_parse_timeout(&v) {
        None => ctx.violation("not-conformant", format!("grpc-timeout {:?} is not 1*8DIGIT + unit", text)),
        Some(back) => {
            let unit = *v.last().unwrap() as char;
            let per = UNITS.iter().find(|(c, _)| *c == unit).unwrap().1;
            ctx.count(&format!("enc.unit.{}", unit));
            if back > d_ns {
                ctx.violation("longer-than-requested", format!("{} ns requested, header {:?} denotes {} ns", d_ns, text, back));
            } else if d_ns - back >= per {
                ctx.violation("loses-a-unit-or-more", format!("{} ns requested, header {:?} denotes {} ns: loss {} >= one unit ({})", d_ns, text, back, d_ns - back, per));
            }
            // the hook parser must read it back exactly
            let mut hm = http::HeaderMap::new();
            hm.insert("grpc-timeout", http::HeaderValue::from_bytes(&v).unwrap());
            match tonic::transport::verif_hooks::parse_grpc_timeout(&hm) {
                Ok(Some(p)) if p.as_nanos() == back => {}
                other => ctx.violation("parse-of-encoded", format!("parser reads {:?} as {:?}", text, other)),
            }
            ctx.fingerprint(format!("enc|{}|{}digits", unit, v.len() - 1), true);
        }
    }
}

fn parse_case(rng: &mut Rng, ctx: &mut Ctx, idx: u64) {
    // structural enumeration first: unit x digit count x shape = 6 x 8 x 5, then random / malformed
    let structural = idx < 6 * 8 * 5 * 4;
    let (value, class): (Vec<u8>, &str) = if structural || rng.chance(1, 2) {
        let u = UNITS[(idx % 6) as usize].0;
        let nd = ((idx / 6) % 8) as usize + 1;
        let shape = (idx / 48) % 5;
        let digits: String = match shape {
            0 => "9".repeat(nd),
            1 => format!("1{}", "0".repeat(nd - 1)),
            2 => "0".repeat(nd),
            3 => format!("{}{}", "0".repeat(nd / 2), (0..nd - nd / 2).map(|_| (b'0' + rng.below(10) as u8) as char).collect::<String>()),
            _ => (0..nd).map(|_| (b'0' + rng.below(10) as u8) as char).collect(),
        };
        (format!("{}{}", digits, u).into_bytes(), "wellformed")
    } else {
        let bad: Vec<u8> = match rng.below(15) {
            0 => vec![],
            1 => b"5".to_vec(),
            2 => b"S".to_vec(),
            3 => format!("5{}", rng.pick(&['s', 'h', 'U', 'N', 'd', 'x', ' ', '5'])).into_bytes(),
            4 => format!("{}S", "1".repeat(rng.urange(9, 20))).into_bytes(),
            5 => format!("{}5{}", rng.pick(&["+", "-", " ", "\t", "0x", "+0"]), rng.pick(&['S', 'm', 'H'])).into_bytes(),
            6 => format!("5 {}", rng.pick(&['S', 'm'])).into_bytes(),
            7 => format!("5{} ", rng.pick(&['S', 'm'])).into_bytes(),
            8 => "٥S".as_bytes().to_vec(),
            9 => vec![b'5', 0xe9],
            10 => format!("{}.5S", rng.below(10)).into_bytes(),
            11 => format!("1e{}S", rng.below(5)).into_bytes(),
            12 => b"99999999999999999999999999999999H".to_vec(),
            13 => {
                // more than 8 digits whose numeric value would fit: the grammar counts digits
                let nd = rng.urange(1, 8);
                let tail: String = (0..nd).map(|_| (b'0' + rng.below(10) as u8) as char).collect();
                format!("{}{}{}", "0".repeat(rng.urange(9 - nd, 30)), tail, rng.pick(&UNITS).0).into_bytes()
            }
            _ => {
                let mut v = rng.bytes_range(1, 10);
                for b in v.iter_mut() {
                    if *b < 0x20 || *b == 0x7f {
                        *b = b'?';
                    }
                }
                v
            }
        };
        (bad, "generated-malformed")
    };
    let expect = ref_parse_timeout(&value);
    ctx.begin(if expect.is_some() { "wellformed" } else { "malformed" }, json!({"grpc-timeout": String::from_utf8_lossy(&value), "class": class}));
    let mut hm = http::HeaderMap::new();
    let hv = match http::HeaderValue::from_bytes(&value) {
        Ok(h) => h,
        Err(_) => return,
    };
    hm.insert("grpc-timeout", hv);
    let got = tonic::transport::verif_hooks::parse_grpc_timeout(&hm);
    match expect {
        Some(ns) => {
            ctx.count(&format!("parse.unit.{}", *value.last().unwrap() as char));
            match got {
                Ok(Some(d)) if d.as_nanos() == ns => {}
                other => ctx.violation("wrong-duration", format!("{:?} denotes {} ns, parser gave {:?}", String::from_utf8_lossy(&value), ns, other)),
            }
            ctx.fingerprint(format!("parse|{}|{}", *value.last().unwrap() as char, value.len() - 1), true);
        }
        None => {
            ctx.count("parse.malformed");
            if let Ok(Some(d)) = got {
                ctx.violation_class("malformed-accepted", &malformed_class(&value), format!("malformed value {:?} was accepted as {:?}", String::from_utf8_lossy(&value), d));
            }
            ctx.fingerprint(format!("parse|malformed|{}", malformed_class(&value)), true);
        }
    }
    // absent header
    if idx % 1000 == 0 {
        let e = http::HeaderMap::new();
        if tonic::transport::verif_hooks::parse_grpc_timeout(&e) != Ok(None) {
            ctx.violation("absent-header", "absent grpc-timeout not reported as None".into());
        }
    }
}

fn malformed_class(v: &[u8]) -> String {
    if v.is_empty() {
        return "empty".into();
    }
    if v.len() > 9 {
        return "too-long".into();
    }
    let (d, u) = v.split_at(v.len() - 1);
    let unit_ok = b"HMSmun".contains(&u[0]);
    if d.is_empty() {
        return "no-digits".into();
    }
    if !unit_ok {
        return "bad-unit".into();
    }
    if d[0] == b'+' || d[0] == b'-' {
        return "sign".into();
    }
    if d.iter().any(|b| *b == b' ' || *b == b'\t') {
        return "space".into();
    }
    if !v.is_ascii() {
        return "non-ascii".into();
    }
    "bad-digits".into()
}

fn enforce_case(rng: &mut Rng, ctx: &mut Ctx) {
    // triple on a millisecond grid around the boundary
    let base = *rng.pick(&[20u64, 50, 100, 250, 1000]);
    let header_ms: Option<u64> = if rng.chance(3, 4) { Some(base + rng.below(3) * 37) } else { None };
    let server_ms: Option<u64> = if rng.chance(1, 2) { Some(base + rng.below(3) * 41) } else { None };
    let endpoint_ms: Option<u64> = if rng.chance(1, 3) { Some(base + rng.below(3) * 43) } else { None };
    // the boundary value: a timeout of zero has elapsed at once (it is not "no timeout")
    let (header_ms, server_ms, endpoint_ms) = if rng.chance(1, 10) {
        ctx.count("enforce.zero_timeout");
        match rng.below(3) {
            0 => (Some(0), server_ms, endpoint_ms),
            1 => (header_ms, Some(0), endpoint_ms),
            _ => (header_ms, server_ms, Some(0)),
        }
    } else {
        (header_ms, server_ms, endpoint_ms)
    };
    // a malformed caller header must simply be ignored: the configured timeouts still apply
    let malformed: Option<&str> = if header_ms.is_none() && rng.chance(2, 3) { Some(*rng.pick(&["1.5S", "30", "S", "123456789S", "000000002m", "0000000000000000000001u", "5s", "10 S", "+5S", "-1S", "1e3m", ""])) } else { None };
    let eff: Option<u64> = [header_ms, server_ms, endpoint_ms].iter().flatten().min().copied();
    let latency = match (eff, rng.below(5)) {
        (Some(0), 0..=3) => base,
        (Some(e), 0) => e.saturating_sub(2),
        (Some(e), 1) => e + 2,
        (Some(e), 2) => e / 2,
        (Some(e), 3) => e * 2 + 5,
        (Some(0), _) => base,
        (Some(e), _) => e.saturating_sub(1).max(1) + rng.below(3), // includes the tie, excluded from the verdict
        (None, _) => base,
    };
    let shape = if rng.bool() { Shape::Unary } else { Shape::ServerStream };
    let script = Script { latency_ms: latency, msgs: vec![crate::pb::Msg { data: vec![1; 10], seq: 1, tag: "ok".into() }], ..Default::default() };
    let spec = CallSpec { id: "t0".into(), shape, req_msgs: vec![crate::pb::Msg::default()], req_meta: malformed.map(|m| vec![("grpc-timeout".to_string(), crate::gen::MVal::Ascii(m.to_string()))]).unwrap_or_default(), req_pend: vec![], req_gaps_ms: vec![], timeout: header_ms.map(Duration::from_millis), pingpong: None };
    let mut sc = Scenario {
        conns: 1,
        lazy: vec![rng.bool()],
        conn_start_ms: vec![0],
        calls: vec![PlannedCall { conn: 0, start_ms: rng.below(5), shape, script: script.clone(), id: "t0".into() }],
        specs: vec![spec],
        signal: Signal::Never,
        keep_clients: false,
        pipe_cfg: if rng.bool() { PipeCfg::plain() } else { PipeCfg::gen(rng) },
        server_window: None,
        client_window: None,
        max_frame: None,
        seed: rng.u64(),
        server_timeout: server_ms.map(Duration::from_millis),
        endpoint_timeout: endpoint_ms.map(Duration::from_millis), max_connection_age: None, opts: 0, listener_faults: vec![],
    };
    // half of the cases put the judged call on the server's SECOND connection: a warm-up call on
    // a first connection precedes it (the configured timeouts hold for every connection)
    let second_conn = (sc.seed >> 11) & 1 == 1;
    if second_conn {
        ctx.count("enforce.second_connection");
        sc.conns = 2;
        sc.lazy = vec![sc.lazy[0], sc.lazy[0]];
        sc.conn_start_ms = vec![0, 0];
        let warm = Script { latency_ms: 0, msgs: vec![crate::pb::Msg { data: vec![2; 3], seq: 1, tag: "warm".into() }], ..Default::default() };
        sc.calls.insert(0, PlannedCall { conn: 0, start_ms: 0, shape: Shape::Unary, script: warm, id: "w0".into() });
        sc.specs.insert(0, CallSpec { id: "w0".into(), shape: Shape::Unary, req_msgs: vec![crate::pb::Msg::default()], req_meta: vec![], req_pend: vec![], req_gaps_ms: vec![], timeout: None, pingpong: None });
        sc.calls[1].conn = 1;
        sc.calls[1].start_ms += 10;
    }
    let judged = sc.calls.len() - 1;
    let case_json = json!({"second_connection": second_conn, "shape": format!("{:?}", shape), "caller_timeout_ms": header_ms, "server_timeout_ms": server_ms, "endpoint_timeout_ms": endpoint_ms, "handler_latency_ms": latency, "effective_ms": eff, "malformed_caller_header": malformed});
    if malformed.is_some() {
        ctx.count("enforce.malformed_header");
    }
    let rel = match eff {
        None => "no-timeout",
        Some(e) if latency < e => "before",
        Some(e) if latency > e => "after",
        _ => "tie",
    };
    ctx.begin(&format!("{}{}", rel, if malformed.is_some() { "-malformed-header" } else { "" }), case_json.clone());
    let out = run_scenario(&sc);
    let Some(view) = out.views[judged].clone() else {
        ctx.violation("call-open", "call did not complete within 3600 virtual seconds".into());
        return;
    };
    let start = out.events.iter().find(|e| e.kind == "call_start" && e.id == "t0").map(|e| e.t_ms).unwrap_or(0);
    let end = out.events.iter().find(|e| e.kind == "call_end" && e.id == "t0").map(|e| e.t_ms).unwrap_or(0);
    let elapsed = end - start;
    let failed: Option<StatusView> = view.call_err.clone().or(match &view.end { Some(Err(s)) => Some(s.clone()), _ => None });
    match rel {
        "tie" => {
            ctx.count("enforce.tie_excluded");
        }
        "before" | "no-timeout" => {
            ctx.count("enforce.finished_before");
            let devs = judge_call(shape, &script, &view);
            if !devs.is_empty() {
                ctx.violation("finished-before-but-affected", format!("handler latency {} ms < effective timeout {:?} ms but: {} (elapsed {} ms)", latency, eff, devs[0].1, elapsed));
            }
        }
        _ => {
            ctx.count("enforce.cut_off");
            let e = eff.unwrap();
            match &failed {
                None => ctx.violation("not-cut-off", format!("handler latency {} ms > effective timeout {} ms but the call succeeded after {} ms", latency, e, elapsed)),
                Some(s) => {
                    if s.code != 1 || !s.message.contains("Timeout expired") {
                        ctx.violation("wrong-status", format!("cut-off call failed with code {} {:?} (want 1 CANCELLED 'Timeout expired')", s.code, s.message));
                    }
                    if elapsed < e || elapsed > e + 2 {
                        ctx.violation("wrong-instant", format!("cut off after {} virtual ms; the shorter of the timeouts is {} ms", elapsed, e));
                    }
                }
            }
            if eff == header_ms && header_ms.is_some() && Some(e) != server_ms && Some(e) != endpoint_ms {
                ctx.count("enforce.min_is_header");
            } else {
                ctx.count("enforce.min_is_configured");
            }
        }
    }
    ctx.fingerprint(format!("enforce|{:?}|h{}|s{}|e{}|{}", shape, header_ms.is_some() as u8, server_ms.is_some() as u8, endpoint_ms.is_some() as u8, rel), rel == "after" || rel == "before");
    ctx.sample(case_json);
}
