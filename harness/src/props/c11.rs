//! C11 — generated clients and servers agree with each other (token monitor).  The byte-for-byte
//! regeneration of the committed sources is the `legs/C11.quick.sh` leg.
use crate::ctx::*;
use crate::prng::Rng;
use prost_types::{DescriptorProto, FileDescriptorProto, FileDescriptorSet, MethodDescriptorProto, ServiceDescriptorProto};
use quote::ToTokens;
use serde_json::json;
use syn::visit::Visit;

const SERVICE_NAMES: &[&str] = &["Ledger", "HTTPGateway", "ledger_v2", "Svc2", "X", "FooBarBaz", "Result", "Service", "a_b_c", "IO"];
const METHOD_NAMES: &[&str] = &["Post", "GetItem", "Getitem", "get_item", "Type", "Match", "Move", "Loop", "Async", "Watch2", "A", "ListAll", "list_all_v2", "Send", "Unary", "Self_", "Box"];

struct MethodSpec {
    name: String,
    cs: bool,
    ss: bool,
    req: String,
    resp: String,
}
struct ServiceSpec {
    name: String,
    methods: Vec<MethodSpec>,
}

/// The generic `CodeGenBuilder` entry point with its defaults (used by code generators that are not
/// prost-based): the package is part of the path unless switched off.
fn codegen_builder_case(ctx: &mut Ctx, i: u64) {
    let emit = i % 3 != 2;
    let explicit = i % 3 == 1;
    let pkg = ["pkg.v1", "acme", ""][(i as usize / 3) % 3];
    ctx.begin("codegen-builder", json!({"package": pkg, "emit_package": if explicit || !emit { json!(emit) } else { json!("default") }}));
    let svc = tonic_build::manual::Service::builder()
        .name("Svc")
        .package(pkg)
        .method(tonic_build::manual::Method::builder().name("do_it").route_name("DoIt").input_type("crate::In").output_type("crate::Out").codec_path("tonic::codec::ProstCodec").build())
        .build();
    let mut b = tonic_build::CodeGenBuilder::new();
    if explicit {
        b.emit_package(true);
    }
    if !emit {
        b.emit_package(false);
    }
    let want_name = if emit && !pkg.is_empty() { format!("{}.Svc", pkg) } else { "Svc".to_string() };
    let want_path = format!("/{}/DoIt", want_name);
    for (side, ts) in [("client", b.generate_client(&svc, "")), ("server", b.generate_server(&svc, ""))] {
        let file = match syn::parse2::<syn::File>(ts) {
            Ok(f) => f,
            Err(e) => {
                ctx.violation("generated-code-unparseable", format!("{}: {}", side, e));
                continue;
            }
        };
        let mut l = Lits::default();
        l.visit_file(&file);
        let ok = l.0.iter().any(|x| *x == want_path) || (l.0.iter().any(|x| x == "DoIt") && l.0.iter().any(|x| x.contains(&want_name) && !x.contains(&format!(".{}", want_name))));
        let wrong = if emit && !pkg.is_empty() { l.0.iter().any(|x| x == "/Svc/DoIt") } else { l.0.iter().any(|x| x.contains("pkg.v1.Svc") || x.contains("acme.Svc")) };
        if !ok || wrong {
            ctx.violation_class("codegen-builder-path", side, format!("CodeGenBuilder ({}): the generated {} does not use {:?}; path-like literals: {:?}", if explicit || !emit { "emit_package set" } else { "defaults" }, side, want_path, l.0.iter().filter(|x| x.contains('/') || x.contains("Svc")).collect::<Vec<_>>()));
        }
    }
    ctx.count("codegen_builder.cases");
    ctx.fingerprint(format!("cgb|{}|{}|{}", pkg, emit, explicit), true);
}

pub fn run(cfg: &RunCfg) -> Ctx {
    let mut all = Ctx::new();
    all.merge(seq_cases(cfg, "codegen-builder", 9, |_, ctx, i| codegen_builder_case(ctx, i)));
    let dir = format!("{}/c11-gen-{}", std::env::var("VERIF_SCRATCH").unwrap_or_else(|_| "/verif/target".into()), std::process::id());
    let d2 = dir.clone();
    all.merge(par_cases(cfg, "tokens", cfg.n(1000, 16 * 4000), || (), move |_, rng, ctx, i| case(rng, ctx, i, &d2)));
    let _ = std::fs::remove_dir_all(&dir);
    for k in ["pkg.absent", "pkg.single", "pkg.nested", "opt.no_package_emission", "opt.default_stubs", "opt.arc_self", "opt.client_only", "opt.server_only", "opt.disable_comments", "shape.unary", "shape.server_streaming", "shape.client_streaming", "shape.streaming", "name.non_camel_service", "name.keyword_method", "observed.methods_checked"] {
        all.floor(k, 5);
    }
    all
}

#[derive(Default, Debug)]
struct ClientFn {
    name: String,
    strings: Vec<String>,
    inner_calls: Vec<String>,
    sig: String,
}
#[derive(Default)]
struct ClientV {
    fns: Vec<ClientFn>,
}
struct BodyV<'a> {
    f: &'a mut ClientFn,
}
impl<'ast> Visit<'ast> for BodyV<'_> {
    fn visit_lit_str(&mut self, l: &'ast syn::LitStr) {
        self.f.strings.push(l.value());
    }
    fn visit_expr_method_call(&mut self, m: &'ast syn::ExprMethodCall) {
        let recv = m.receiver.to_token_stream().to_string().replace(' ', "");
        if recv == "self.inner" {
            self.f.inner_calls.push(m.method.to_string());
        }
        syn::visit::visit_expr_method_call(self, m);
    }
}
impl<'ast> Visit<'ast> for ClientV {
    fn visit_impl_item_fn(&mut self, f: &'ast syn::ImplItemFn) {
        if f.sig.asyncness.is_some() && matches!(f.vis, syn::Visibility::Public(_)) {
            let mut cf = ClientFn { name: f.sig.ident.to_string(), sig: f.sig.to_token_stream().to_string(), ..Default::default() };
            BodyV { f: &mut cf }.visit_block(&f.block);
            self.fns.push(cf);
        }
    }
}

#[derive(Default, Debug)]
struct Arm {
    path: String,
    grpc_calls: Vec<String>,
    service_impls: Vec<String>, // "UnaryService < super :: Req0 >"
    response_types: Vec<String>,
    trait_calls: Vec<String>, // methods called on the user trait: `< T as Foo > :: name`
}
#[derive(Default)]
struct ServerV {
    arms: Vec<Arm>,
    has_default_arm: bool,
    service_name_const: Option<String>,
    named_service: Option<String>,
    trait_methods: Vec<String>,
}
struct ArmV<'a> {
    a: &'a mut Arm,
}
impl<'ast> Visit<'ast> for ArmV<'_> {
    fn visit_expr_method_call(&mut self, m: &'ast syn::ExprMethodCall) {
        let recv = m.receiver.to_token_stream().to_string();
        if recv == "grpc" {
            self.a.grpc_calls.push(m.method.to_string());
        }
        syn::visit::visit_expr_method_call(self, m);
    }
    fn visit_item_impl(&mut self, i: &'ast syn::ItemImpl) {
        if let Some((_, path, _)) = &i.trait_ {
            if let Some(seg) = path.segments.last() {
                self.a.service_impls.push(seg.to_token_stream().to_string());
            }
        }
        for it in &i.items {
            if let syn::ImplItem::Type(t) = it {
                if t.ident == "Response" {
                    self.a.response_types.push(t.ty.to_token_stream().to_string());
                }
            }
        }
        syn::visit::visit_item_impl(self, i);
    }
    fn visit_expr_path(&mut self, p: &'ast syn::ExprPath) {
        if p.qself.is_some() {
            if let Some(seg) = p.path.segments.last() {
                self.a.trait_calls.push(seg.ident.to_string());
            }
        }
        syn::visit::visit_expr_path(self, p);
    }
}
impl<'ast> Visit<'ast> for ServerV {
    fn visit_arm(&mut self, arm: &'ast syn::Arm) {
        match &arm.pat {
            syn::Pat::Lit(l) => {
                if let syn::Lit::Str(s) = &l.lit {
                    let mut a = Arm { path: s.value(), ..Default::default() };
                    ArmV { a: &mut a }.visit_expr(&arm.body);
                    self.arms.push(a);
                    return;
                }
            }
            syn::Pat::Wild(_) => {
                let body = arm.body.to_token_stream().to_string();
                if body.contains("Unimplemented") || body.contains("unimplemented") {
                    self.has_default_arm = true;
                }
            }
            _ => {}
        }
        syn::visit::visit_arm(self, arm);
    }
    fn visit_item_const(&mut self, c: &'ast syn::ItemConst) {
        if c.ident == "SERVICE_NAME" {
            if let syn::Expr::Lit(l) = &*c.expr {
                if let syn::Lit::Str(s) = &l.lit {
                    self.service_name_const = Some(s.value());
                }
            }
        }
    }
    fn visit_item_impl(&mut self, i: &'ast syn::ItemImpl) {
        if let Some((_, path, _)) = &i.trait_ {
            if path.segments.last().map(|s| s.ident == "NamedService").unwrap_or(false) {
                for it in &i.items {
                    if let syn::ImplItem::Const(c) = it {
                        if c.ident == "NAME" {
                            self.named_service = Some(c.expr.to_token_stream().to_string());
                        }
                    }
                }
            }
        }
        syn::visit::visit_item_impl(self, i);
    }
    fn visit_item_trait(&mut self, t: &'ast syn::ItemTrait) {
        for it in &t.items {
            if let syn::TraitItem::Fn(f) = it {
                self.trait_methods.push(f.sig.ident.to_string());
            }
        }
    }
}

#[derive(Default)]
struct Lits(Vec<String>);
impl<'ast> Visit<'ast> for Lits {
    fn visit_lit_str(&mut self, l: &'ast syn::LitStr) {
        self.0.push(l.value());
    }
}

fn case(rng: &mut Rng, ctx: &mut Ctx, idx: u64, dir: &str) {
    let pkg: Option<String> = match rng.below(4) {
        0 => None,
        1 => Some("acme".into()),
        2 => Some("acme.billing.v1".into()),
        _ => Some(format!("p{}.q_r", rng.below(9))),
    };
    ctx.count(match &pkg { None => "pkg.absent", Some(p) if p.contains('.') => "pkg.nested", _ => "pkg.single" });
    let nsvc = rng.urange(1, 2);
    let mut tn = 0;
    let mut services = Vec::new();
    let mut used_svc: Vec<&str> = Vec::new();
    for _ in 0..nsvc {
        let mut name = *rng.pick(SERVICE_NAMES);
        while used_svc.iter().any(|u| u.eq_ignore_ascii_case(name) || snake(u) == snake(name)) {
            name = *rng.pick(SERVICE_NAMES);
        }
        used_svc.push(name);
        let nm = rng.urange(1, 6);
        let mut methods = Vec::new();
        let mut used: Vec<String> = Vec::new();
        for _ in 0..nm {
            let mname = *rng.pick(METHOD_NAMES);
            if used.iter().any(|u| snake(u) == snake(mname)) {
                continue;
            }
            used.push(mname.to_string());
            tn += 1;
            methods.push(MethodSpec { name: mname.to_string(), cs: rng.bool(), ss: rng.bool(), req: format!("Req{}", tn), resp: format!("Resp{}", tn) });
        }
        services.push(ServiceSpec { name: name.to_string(), methods });
    }
    let emit_package = !rng.chance(1, 4);
    let default_stubs = rng.chance(1, 3);
    let arc_self = rng.chance(1, 3);
    let (build_client, build_server) = match rng.below(6) {
        0 => (true, false),
        1 => (false, true),
        _ => (true, true),
    };
    if !emit_package {
        ctx.count("opt.no_package_emission");
    }
    if default_stubs {
        ctx.count("opt.default_stubs");
    }
    if arc_self {
        ctx.count("opt.arc_self");
    }
    if !build_server {
        ctx.count("opt.client_only");
    }
    if !build_client {
        ctx.count("opt.server_only");
    }
    let case_json = json!({"package": pkg, "services": services.iter().map(|s| json!({"name": s.name, "methods": s.methods.iter().map(|m| json!([m.name, m.cs, m.ss])).collect::<Vec<_>>()})).collect::<Vec<_>>(),
        "emit_package": emit_package, "default_stubs": default_stubs, "arc_self": arc_self, "build_client": build_client, "build_server": build_server});
    ctx.begin(if emit_package { "emit-package" } else { "no-package" }, case_json.clone());
    // descriptor
    let mut fd = FileDescriptorProto { name: Some("svc.proto".into()), package: pkg.clone(), syntax: Some("proto3".into()), ..Default::default() };
    for s in &services {
        let mut sd = ServiceDescriptorProto { name: Some(s.name.clone()), ..Default::default() };
        for m in &s.methods {
            let q = |t: &str| format!(".{}{}", pkg.clone().map(|p| p + ".").unwrap_or_default(), t);
            fd.message_type.push(DescriptorProto { name: Some(m.req.clone()), ..Default::default() });
            fd.message_type.push(DescriptorProto { name: Some(m.resp.clone()), ..Default::default() });
            sd.method.push(MethodDescriptorProto { name: Some(m.name.clone()), input_type: Some(q(&m.req)), output_type: Some(q(&m.resp)), client_streaming: Some(m.cs), server_streaming: Some(m.ss), options: None });
        }
        fd.service.push(sd);
    }
    let out = format!("{}/{}", dir, idx);
    let _ = std::fs::create_dir_all(&out);
    let mut b = tonic_build::configure().out_dir(&out).build_client(build_client).build_server(build_server).generate_default_stubs(default_stubs).use_arc_self(arc_self).emit_rerun_if_changed(false);
    if !emit_package {
        b = b.disable_package_emission();
    }
    // options that only concern documentation must not change what is generated
    if rng.chance(1, 3) {
        let s0 = rng.pick(&services);
        let svc_path = format!("{}{}", if emit_package { pkg.clone().map(|p| p + ".").unwrap_or_default() } else { String::new() }, s0.name);
        if rng.bool() {
            b = b.disable_comments(&svc_path);
        }
        for m in &s0.methods {
            if rng.bool() {
                b = b.disable_comments(format!("{}.{}", svc_path, m.name));
            }
        }
        ctx.count("opt.disable_comments");
    }
    if let Err(e) = b.compile_fds(FileDescriptorSet { file: vec![fd] }) {
        ctx.violation("generator-failed", format!("compile_fds failed: {}", e));
        return;
    }
    let mut src = String::new();
    if let Ok(rd) = std::fs::read_dir(&out) {
        for e in rd.flatten() {
            if e.path().extension().map(|x| x == "rs").unwrap_or(false) {
                src.push_str(&std::fs::read_to_string(e.path()).unwrap_or_default());
            }
        }
    }
    let _ = std::fs::remove_dir_all(&out);
    let file = match syn::parse_file(&src) {
        Ok(f) => f,
        Err(e) => {
            ctx.violation("generated-code-unparseable", format!("{}", e));
            return;
        }
    };
    // per service: find the client and server modules
    for s in &services {
        let modbase = snake(&s.name);
        if s.name.chars().any(|c| c == '_') || s.name.chars().filter(|c| c.is_uppercase()).count() > 1 && s.name.to_uppercase() == s.name || s.name == "HTTPGateway" {
            ctx.count("name.non_camel_service");
        }
        let svc_fq = format!("{}{}", pkg.clone().map(|p| p + ".").unwrap_or_default(), s.name);
        let svc_name_expected = if emit_package { svc_fq.clone() } else { s.name.clone() };
        let find_mod = |suffix: &str| -> Option<&syn::ItemMod> {
            file.items.iter().find_map(|it| if let syn::Item::Mod(m) = it { if m.ident == format!("{}_{}", modbase, suffix).as_str() { Some(m) } else { None } } else { None })
        };
        let cm = find_mod("client");
        let sm = find_mod("server");
        if build_client != cm.is_some() || build_server != sm.is_some() {
            ctx.violation("module-presence", format!("service {}: client module {} server module {} (build_client={}, build_server={})", s.name, cm.is_some(), sm.is_some(), build_client, build_server));
            continue;
        }
        let mut cv = ClientV::default();
        if let Some(m) = cm {
            cv.visit_item_mod(m);
        }
        let mut sv = ServerV::default();
        if let Some(m) = sm {
            sv.visit_item_mod(m);
        }
        // every string literal of each module: facts that do not depend on how the generated code
        // is organised
        let mut clits = Lits::default();
        if let Some(m) = cm {
            clits.visit_item_mod(m);
        }
        let mut slits = Lits::default();
        if let Some(m) = sm {
            slits.visit_item_mod(m);
        }
        // the detailed server checks apply to the dispatch structure this monitor knows (one match
        // arm per full path); any other organisation is judged on literals only, and by the
        // compiled-and-run leg (c11gen)
        let server_structure_known = sv.arms.iter().any(|a| a.path.starts_with('/'));
        if build_server && !server_structure_known {
            ctx.count("structure.server_unrecognised");
        }
        for m in &s.methods {
            ctx.count("observed.methods_checked");
            let kw = ["type", "match", "move", "loop", "async", "box"].contains(&snake(&m.name).as_str());
            if kw {
                ctx.count("name.keyword_method");
            }
            let shape = match (m.cs, m.ss) {
                (false, false) => "unary",
                (false, true) => "server_streaming",
                (true, false) => "client_streaming",
                (true, true) => "streaming",
            };
            ctx.count(&format!("shape.{}", shape));
            let want_path = format!("/{}/{}", svc_name_expected, m.name);
            let class = format!("{}{}", shape, if emit_package { "" } else { "-nopkg" });
            // ---- client side
            if build_client {
                let f = cv.fns.iter().find(|f| f.strings.iter().any(|x| x.starts_with('/') && x.ends_with(&format!("/{}", m.name))) || f.name.trim_start_matches("r#") == snake(&m.name));
                match f {
                    None => ctx.violation_class("client-method-missing", &class, format!("no client method for {}.{}", s.name, m.name)),
                    Some(f) => {
                        let paths: Vec<&String> = f.strings.iter().filter(|x| x.starts_with('/')).collect();
                        if paths != vec![&want_path] {
                            ctx.violation_class("client-path", &class, format!("client sends {}.{} to {:?}, expected {:?}", s.name, m.name, paths, want_path));
                        }
                        let known: Vec<&String> = f.inner_calls.iter().filter(|c| ["unary", "server_streaming", "client_streaming", "streaming"].contains(&c.as_str())).collect();
                        if known.is_empty() {
                            // the call into tonic::client::Grpc is organised differently: the
                            // signature checks below and the compiled-and-run leg judge the shape
                            ctx.count("structure.client_unrecognised");
                        } else if known.iter().any(|c| c.as_str() != shape) {
                            ctx.violation_class("client-shape", &class, format!("client method {} calls {:?}, expected Grpc::{}", f.name, f.inner_calls, shape));
                        }
                        // the service and method names handed to GrpcMethod: every name-like literal
                        // of the method (no '/', no spaces) must be the method's or the service's
                        // own name; a package-qualified name where the path has none (or the reverse)
                        // is a disagreement
                        for lit in f.strings.iter().filter(|x| !x.starts_with('/') && !x.contains(' ') && !x.is_empty() && x.chars().all(|c| c.is_alphanumeric() || c == '_' || c == '.')) {
                            let is_method = *lit == m.name;
                            let is_service = *lit == svc_name_expected;
                            let other_spelling_of_service = *lit != svc_name_expected && (*lit == svc_fq || *lit == s.name);
                            if other_spelling_of_service && !is_method && !is_service {
                                ctx.violation_class("client-grpc-method", &class, format!("{} names the service {:?} while its path uses {:?}", f.name, lit, svc_name_expected));
                            }
                        }
                        if !clits.0.iter().any(|x| *x == svc_name_expected) && !clits.0.iter().any(|x| x.starts_with(&format!("/{}/", svc_name_expected))) {
                            ctx.violation_class("client-grpc-method", &class, format!("the client module never spells the service name {:?}", svc_name_expected));
                        }
                        if !(f.sig.contains(&m.req) && f.sig.contains(&m.resp)) {
                            ctx.violation_class("client-types", &class, format!("signature of {} does not mention {} / {}: {}", f.name, m.req, m.resp, f.sig));
                        }
                        let streaming_req = f.sig.contains("IntoStreamingRequest");
                        if streaming_req != m.cs {
                            ctx.violation_class("client-request-kind", &class, format!("{}: IntoStreamingRequest={} but client_streaming={}", f.name, streaming_req, m.cs));
                        }
                        let streaming_resp = f.sig.contains("Streaming <") && f.sig.split("->").nth(1).map(|r| r.contains("Streaming")).unwrap_or(false);
                        if streaming_resp != m.ss {
                            ctx.violation_class("client-response-kind", &class, format!("{}: streaming response={} but server_streaming={}", f.name, streaming_resp, m.ss));
                        }
                    }
                }
            }
            // ---- server side
            if build_server && !server_structure_known {
                // literal-level facts only
                let full = slits.0.iter().any(|x| *x == want_path);
                let bare = slits.0.iter().any(|x| *x == m.name);
                let prefix = slits.0.iter().any(|x| x.contains(&svc_name_expected));
                if !(full || (bare && prefix)) {
                    ctx.violation_class("server-path", &class, format!("the server module spells neither {:?} nor the method name {:?} next to the service name {:?}", want_path, m.name, svc_name_expected));
                }
            }
            if build_server && server_structure_known {
                match sv.arms.iter().find(|a| a.path == want_path) {
                    None => ctx.violation_class("server-path", &class, format!("server has no arm for {:?}; arms: {:?}", want_path, sv.arms.iter().map(|a| &a.path).collect::<Vec<_>>())),
                    Some(a) => {
                        if a.grpc_calls.iter().filter(|c| ["unary", "server_streaming", "client_streaming", "streaming"].contains(&c.as_str())).collect::<Vec<_>>() != vec![shape] {
                            ctx.violation_class("server-shape", &class, format!("server arm {} calls {:?}, expected grpc.{}", a.path, a.grpc_calls, shape));
                        }
                        let want_impl = match shape { "unary" => "UnaryService", "server_streaming" => "ServerStreamingService", "client_streaming" => "ClientStreamingService", _ => "StreamingService" };
                        if !a.service_impls.iter().any(|i| i.starts_with(want_impl) && i.contains(&m.req)) {
                            ctx.violation_class("server-request-type", &class, format!("arm {} implements {:?}, expected {}<{}>", a.path, a.service_impls, want_impl, m.req));
                        }
                        if !a.response_types.iter().any(|t| t.contains(&m.resp)) {
                            ctx.violation_class("server-response-type", &class, format!("arm {} has Response types {:?}, expected {}", a.path, a.response_types, m.resp));
                        }
                        // the arm must call the trait method named after this rpc
                        let want_fn = snake(&m.name);
                        if !a.trait_calls.iter().any(|c| c.trim_start_matches("r#").trim_end_matches('_') == want_fn.trim_end_matches('_')) {
                            ctx.violation_class("server-dispatch-target", &class, format!("arm {} calls trait methods {:?}, expected {}", a.path, a.trait_calls, want_fn));
                        }
                    }
                }
            }
        }
        if build_server {
            if server_structure_known && sv.arms.iter().filter(|a| a.path.starts_with('/')).count() != s.methods.len() {
                ctx.violation("server-arm-count", format!("{} arms for {} methods", sv.arms.len(), s.methods.len()));
            }
            // advertised name: NamedService::NAME is a literal or names a constant of the module
            let advertised: Option<String> = match sv.named_service.as_deref() {
                Some(x) if x.starts_with('"') => Some(x.trim_matches('"').to_string()),
                Some("SERVICE_NAME") => sv.service_name_const.clone(),
                _ => None,
            };
            match advertised {
                Some(a) if a == svc_name_expected => {}
                Some(a) => ctx.violation_class("service-name", if emit_package { "emit-package" } else { "no-package" }, format!("the server advertises {:?}, the paths use {:?}", a, svc_name_expected)),
                // spelled some other way: the compiled-and-run leg reads the real constant
                None => ctx.count("structure.name_unrecognised"),
            }
        }
    }
    ctx.fingerprint(
        format!("tok|pkg{}|emit{}|stubs{}|arc{}|c{}s{}|svcs{}|m{}", match &pkg { None => 0, Some(p) if p.contains('.') => 2, _ => 1 }, emit_package as u8, default_stubs as u8, arc_self as u8, build_client as u8, build_server as u8, services.len(), services.iter().map(|s| s.methods.len()).sum::<usize>().min(6)),
        true,
    );
    ctx.sample(case_json);
}

/// snake_case the way heck does for the shapes we generate (good enough to find modules/fns)
fn snake(s: &str) -> String {
    let mut out = String::new();
    let cs: Vec<char> = s.chars().collect();
    for (i, c) in cs.iter().enumerate() {
        if c.is_uppercase() {
            let prev_lower = i > 0 && (cs[i - 1].is_lowercase() || cs[i - 1].is_ascii_digit());
            let next_lower = i + 1 < cs.len() && cs[i + 1].is_lowercase();
            if i > 0 && cs[i - 1] != '_' && (prev_lower || (cs[i - 1].is_uppercase() && next_lower)) {
                out.push('_');
            }
            out.extend(c.to_lowercase());
        } else {
            out.push(*c);
        }
    }
    out.trim_end_matches('_').to_string()
}
