//! C08 — user metadata crosses the wire intact; protocol headers cannot be forged.
use crate::ctx::*;
#[cfg(feature = "full")]
use crate::exec::{Exec, Out};
use crate::gen::*;
#[cfg(feature = "full")]
use crate::pb::verif::{verif_client::VerifClient, verif_server::VerifServer};
#[cfg(feature = "full")]
use crate::pb::Msg;
use crate::prng::Rng;
use crate::refc::*;
#[cfg(feature = "full")]
use crate::svc::*;
use http::{HeaderMap, HeaderName, HeaderValue};
use serde_json::json;
use std::collections::hash_map::DefaultHasher;
use std::hash::{Hash, Hasher};
use tonic::metadata::{AsciiMetadataKey, AsciiMetadataValue, BinaryMetadataValue, KeyAndValueRef, KeyRef, MetadataMap, MetadataValue, ValueRef};

pub fn run(cfg: &RunCfg) -> Ctx {
    let mut all = Ctx::new();
    #[cfg(feature = "full")]
    all.merge(par_cases(cfg, "wire", cfg.n(12_000, 16 * 200_000), || (), |_, rng, ctx, i| wire_case(rng, ctx, i)));
    #[cfg(feature = "full")]
    {
        all.merge(par_cases(cfg, "h2", cfg.n(100, 16 * 1500), || (), |_, rng, ctx, i| h2_case(rng, ctx, i)));
        all.floor("h2.calls", 50);
    }
    all.floor("wire.trailers_requested_early", 20);
    all.floor("wire.ok_status_with_trailing_metadata", 20);
    all.merge(par_cases(cfg, "accessors", cfg.n(25_000, 16 * 400_000), || (), |_, rng, ctx, _| accessor_case(rng, ctx)));
    for k in ["acc.bin_len_mod3.0", "acc.bin_len_mod3.1", "acc.bin_len_mod3.2", "acc.padded_peer_value", "acc.invalid_base64_value", "acc.repeated_key", "acc.repeated_key_read_from_both_ends", "acc.mixed_case_key", "acc.binary_value_constructors", "acc.status_from_error_chain"] {
        all.floor(k, 10);
    }
    #[cfg(feature = "full")]
    for k in ["wire.reserved_in_request", "wire.reserved_in_response", "wire.reserved_in_status", "wire.peer_pads", "wire.status_seen", "wire.bin_values"] {
        all.floor(k, 10);
    }
    all
}

/// Add reserved-name entries carrying a taint tag to a metadata spec at random positions.
fn taint(rng: &mut Rng, spec: &mut MetaSpec, tag: &mut u32) -> usize {
    let mut n = 0;
    for r in RESERVED {
        if rng.chance(1, 3) {
            *tag += 1;
            let at = rng.usize_below(spec.len() + 1);
            spec.insert(at, (r.to_string(), MVal::Ascii(format!("USERVAL-{}", tag))));
            n += 1;
            if rng.chance(1, 3) {
                // the same reserved name appended again (a multi-valued reserved entry)
                *tag += 1;
                let at2 = rng.usize_below(spec.len() + 1);
                spec.insert(at2, (r.to_string(), MVal::Ascii(format!("USERVAL-{}", tag))));
            }
        }
    }
    n
}

fn strip_reserved(spec: &MetaSpec) -> MetaSpec {
    spec.iter().filter(|(k, _)| !RESERVED.contains(&k.as_str())).cloned().collect()
}

/// wire form a sender must produce: ascii as-is, binary as unpadded RFC 4648
fn wire_multimap(spec: &MetaSpec) -> MultiMap {
    let mut m = MultiMap::new();
    for (k, v) in spec {
        let b = match v {
            MVal::Ascii(s) => s.as_bytes().to_vec(),
            MVal::Bin(b) => b64_encode(b, false).into_bytes(),
        };
        m.entry(k.clone()).or_default().push(b);
    }
    m
}

fn check_wire(ctx: &mut Ctx, place: &str, headers: &HeaderMap, spec: &MetaSpec) {
    let mut have = headers_to_multimap(headers);
    // a sender may pad binary values: compare the unpadded spelling (well-formedness is checked below)
    for (k, vs) in have.iter_mut() {
        if k.ends_with("-bin") {
            for v in vs.iter_mut() {
                while v.last() == Some(&b'=') {
                    v.pop();
                }
            }
        }
    }
    let want = wire_multimap(&strip_reserved(spec));
    if let Err(e) = multimap_includes(&have, &want) {
        ctx.violation_class("wire-differs", place, format!("{}: {}", place, e));
    }
    for (k, v) in headers.iter() {
        if RESERVED.contains(&k.as_str()) && String::from_utf8_lossy(v.as_bytes()).contains("USERVAL") {
            ctx.violation_class("reserved-header-forged", &format!("{}-{}", place, k.as_str()), format!("{}: user metadata was emitted under the reserved name {} ({:?})", place, k, String::from_utf8_lossy(v.as_bytes())));
        }
    }
    // binary values are well-formed base64 on the wire (padded or not is the sender's choice)
    for (k, v) in headers.iter() {
        if k.as_str().ends_with("-bin") && k.as_str() != "grpc-status-details-bin" && spec.iter().any(|(sk, _)| sk == k.as_str()) {
            if !b64_is_wellformed(v.as_bytes()) {
                ctx.violation_class("bin-not-base64", place, format!("{}: {} = {:?}", place, k, String::from_utf8_lossy(v.as_bytes())));
            }
        }
    }
}

#[cfg(feature = "full")]
fn wire_case(rng: &mut Rng, ctx: &mut Ctx, idx: u64) {
    let mut tag = 0u32;
    let shape = *rng.pick(&[Shape::Unary, Shape::ServerStream, Shape::Unary, Shape::Bidi]);
    let mut req_meta = gen_meta(rng, 6, false);
    let n_req_res = taint(rng, &mut req_meta, &mut tag);
    let mut init_md = gen_meta(rng, 5, false);
    let n_resp_res = taint(rng, &mut init_md, &mut tag);
    let fails = rng.bool();
    let mut st = gen_status(rng);
    let streaming = matches!(shape, Shape::ServerStream | Shape::Bidi);
    // trailing metadata of a *successful* stream: tonic's way to attach it is to end the handler's
    // stream with an OK status that carries the entries
    let ok_trailing = fails && streaming && rng.chance(1, 4);
    if ok_trailing {
        st.code = 0;
        st.message = String::new();
        st.details = Vec::new();
        if st.meta.is_empty() {
            st.meta = gen_meta(rng, 4, false);
        }
    }
    let n_st_res = taint(rng, &mut st.meta, &mut tag);
    let up_front = fails && streaming && !ok_trailing && rng.bool();
    let k = if streaming { rng.urange(0, 2) } else { 1 };
    let script = Script {
        initial_md: init_md.clone(),
        msgs: (0..k).map(|i| Msg { data: vec![i as u8; 3], seq: i as u64, tag: String::new() }).collect(),
        end: if fails { Some(st.clone()) } else { None },
        fail_up_front: up_front,
        ..Default::default()
    };
    let id = format!("m{}", idx);
    let spec = CallSpec { id: id.clone(), shape, req_msgs: vec![Msg::default()], req_meta: req_meta.clone(), req_pend: vec![], req_gaps_ms: vec![], timeout: None, pingpong: None };
    let pad = rng.bool();
    let case_json = json!({"shape": format!("{:?}", shape), "request_meta": meta_json(&req_meta), "initial_md": meta_json(&init_md), "status": if fails { Some(st.json()) } else { None }, "fail_up_front": up_front, "peer_pads_bin": pad});
    ctx.begin(if pad { "padding-peer" } else { "plain-peer" }, case_json.clone());
    if n_req_res > 0 {
        ctx.count("wire.reserved_in_request");
    }
    if n_resp_res > 0 && !(fails && (!streaming || up_front)) {
        ctx.count("wire.reserved_in_response");
    }
    if n_st_res > 0 && fails {
        ctx.count("wire.reserved_in_status");
    }
    if pad {
        ctx.count("wire.peer_pads");
    }
    if req_meta.iter().chain(&init_md).any(|(_, v)| matches!(v, MVal::Bin(_))) {
        ctx.count("wire.bin_values");
    }
    let handler = Handler::new();
    handler.set_script(&id, script.clone());
    let mut lb = Loopback::new(VerifServer::new(handler.clone()), rng.u64(), 1 << 20);
    lb.pad_bin = pad;
    let (tap, rtap, ttap) = (lb.tap.clone(), lb.resp_tap.clone(), lb.trailers_tap.clone());
    let mut client = VerifClient::new(lb);
    let mut ex = Exec::new();
    // one streaming call in three asks for the trailers before it has read everything
    let early: Option<usize> = if streaming && rng.chance(1, 3) { Some(rng.urange(0, k)) } else { None };
    crate::svc::EARLY_TRAILERS.with(|c| c.set(early));
    let out = ex.block_on(200_000, do_call(&mut client, &spec, None));
    crate::svc::EARLY_TRAILERS.with(|c| c.set(None));
    let view = match out {
        Out::Done(v) => v,
        _ => {
            ctx.violation("hang", "call did not complete".into());
            return;
        }
    };
    if early.is_some() {
        ctx.count("wire.trailers_requested_early");
    }
    // what the client put on the wire
    let req_parts = tap.lock().unwrap();
    if let Some(p) = req_parts.first() {
        check_wire(ctx, "request", &p.headers, &req_meta);
    } else {
        ctx.violation("no-request", "nothing was sent".into());
        return;
    }
    // what the handler received (after the peer possibly re-padded binary values)
    let log = handler.log(&id);
    if let Some(e) = &log.req_meta_err {
        ctx.violation("handler-metadata-unreadable", e.clone());
    } else if let Err(e) = multimap_includes(&log.req_meta, &spec_multimap(&strip_reserved(&req_meta))) {
        ctx.violation_class("handler-metadata-differs", if pad { "padding-peer" } else { "plain-peer" }, e);
    }
    // what the server put on the wire
    let empty_md: MetaSpec = Vec::new();
    let resp_parts = rtap.lock().unwrap();
    let trailers = ttap.lock().unwrap();
    if let Some(p) = resp_parts.first() {
        let trailers_only = p.headers.contains_key("grpc-status");
        if fails && trailers_only {
            ctx.count("wire.status_trailers_only");
            ctx.count("wire.status_seen");
            check_wire(ctx, "status-trailers-only", &p.headers, &st.meta);
        } else {
            // a handler that failed before returning a Response never attached initial metadata
            let no_response_object = fails && (up_front || !streaming);
            check_wire(ctx, "response", &p.headers, if no_response_object { &empty_md } else { &init_md });
            if fails {
                match trailers.first() {
                    Some(t) => {
                        ctx.count("wire.status_in_trailers");
                        ctx.count("wire.status_seen");
                        check_wire(ctx, "status-trailers", t, &st.meta);
                    }
                    None => ctx.violation("no-trailers", "failing stream produced no trailers".into()),
                }
            }
        }
    }
    // what the client API shows
    let mut stripped = script.clone();
    stripped.initial_md = strip_reserved(&init_md);
    if let Some(j) = early {
        // what follows the j-th message is drained by `trailers()`, not shown
        stripped.msgs.truncate(j);
    }
    if let Some(e) = stripped.end.as_mut() {
        e.meta = strip_reserved(&e.meta);
    }
    if ok_trailing {
        ctx.count("wire.ok_status_with_trailing_metadata");
        let want = spec_multimap(&stripped.end.as_ref().unwrap().meta);
        stripped.end = None;
        match (&view.end, &view.trailer_meta) {
            (Some(Ok(())), Some(t)) => {
                if let Err(e) = multimap_includes(t, &want) {
                    ctx.violation_class("client-trailing-metadata-of-ok-stream", if pad { "padding-peer" } else { "plain-peer" }, e);
                }
            }
            (Some(Ok(())), None) => {
                if !want.is_empty() {
                    ctx.violation_class("client-trailing-metadata-of-ok-stream", if pad { "padding-peer" } else { "plain-peer" }, "the stream ended OK but trailers() returned nothing; the handler attached trailing metadata".into());
                }
            }
            _ => {}
        }
    }
    for (d, what) in judge_call(shape, &stripped, &view) {
        ctx.violation_class(&format!("client-{}", d), if pad { "padding-peer" } else { "plain-peer" }, what);
    }
    ctx.fingerprint(
        format!("wire|{:?}|rq{}|rs{}|st{}|pad{}|fail{}|up{}", shape, n_req_res.min(2), n_resp_res.min(2), n_st_res.min(2), pad as u8, fails as u8, up_front as u8),
        n_req_res + n_resp_res + n_st_res > 0 || pad,
    );
    ctx.sample(case_json);
}

fn hash_of<T: Hash>(t: &T) -> u64 {
    let mut h = DefaultHasher::new();
    t.hash(&mut h);
    h.finish()
}

fn accessor_case(rng: &mut Rng, ctx: &mut Ctx) {
    // arbitrary peer-supplied headers: ascii, binary valid (padded or not) / invalid, reserved names
    let n = rng.urange(0, 8);
    let mut entries: Vec<(String, Vec<u8>, bool /*bin*/, Option<Vec<u8>> /*decoded*/)> = Vec::new();
    for _ in 0..n {
        let repeat = !entries.is_empty() && rng.chance(1, 4);
        if repeat {
            ctx.count("acc.repeated_key");
        }
        let (key, bin) = if repeat {
            let e = &entries[rng.usize_below(entries.len())];
            (e.0.clone(), e.2)
        } else if rng.chance(1, 6) {
            (rng.pick(RESERVED).to_string(), false)
        } else {
            let bin = rng.chance(1, 2);
            (gen_key(rng, bin), bin)
        };
        if bin {
            let raw = rng.bytes_range(0, 32);
            ctx.count(&format!("acc.bin_len_mod3.{}", raw.len() % 3));
            match rng.below(5) {
                0 => {
                    ctx.count("acc.invalid_base64_value");
                    entries.push((key, rng.pick(&["!!!", "a", "ab cd", "*"]).as_bytes().to_vec(), true, None));
                }
                1 | 2 => {
                    ctx.count("acc.padded_peer_value");
                    entries.push((key, b64_encode(&raw, true).into_bytes(), true, Some(raw)));
                }
                _ => entries.push((key, b64_encode(&raw, false).into_bytes(), true, Some(raw))),
            }
        } else {
            entries.push((key, gen_ascii_value(rng, false).into_bytes(), false, None));
        }
    }
    let mut hm = HeaderMap::new();
    for (k, v, _, _) in &entries {
        hm.append(HeaderName::from_bytes(k.as_bytes()).unwrap(), HeaderValue::from_bytes(v).unwrap());
    }
    let case_json = json!({"headers": entries.iter().map(|e| json!([e.0, String::from_utf8_lossy(&e.1)])).collect::<Vec<_>>()});
    ctx.begin("map", case_json.clone());
    let m = MetadataMap::from_headers(hm.clone());
    // --- iter / keys / values categorise by suffix
    let mut n_iter = 0;
    for kv in m.iter() {
        n_iter += 1;
        match kv {
            KeyAndValueRef::Ascii(k, _) => {
                if k.as_str().ends_with("-bin") {
                    ctx.violation("iter-binary-as-ascii", format!("{} presented as ASCII by iter()", k.as_str()));
                }
            }
            KeyAndValueRef::Binary(k, _) => {
                if !k.as_str().ends_with("-bin") {
                    ctx.violation("iter-ascii-as-binary", format!("{} presented as binary by iter()", k.as_str()));
                }
            }
        }
    }
    if n_iter != entries.len() || m.len() != entries.len() {
        ctx.violation("iter-count", format!("iter() yields {} entries, len() {}, map has {}", n_iter, m.len(), entries.len()));
    }
    for k in m.keys() {
        match k {
            KeyRef::Ascii(k) if k.as_str().ends_with("-bin") => ctx.violation("keys-binary-as-ascii", k.as_str().to_string()),
            KeyRef::Binary(k) if !k.as_str().ends_with("-bin") => ctx.violation("keys-ascii-as-binary", k.as_str().to_string()),
            _ => {}
        }
    }
    let n_bin_vals = m.values().filter(|v| matches!(v, ValueRef::Binary(_))).count();
    if n_bin_vals != entries.iter().filter(|e| e.2).count() {
        ctx.violation("values-categorisation", format!("values() yields {} binary values, map has {}", n_bin_vals, entries.iter().filter(|e| e.2).count()));
    }
    // --- get / get_bin / get_all / get_all_bin / entry per distinct key
    let mut keys: Vec<(String, bool)> = entries.iter().map(|e| (e.0.clone(), e.2)).collect();
    keys.sort();
    keys.dedup();
    for (k, bin) in &keys {
        let vals: Vec<&(String, Vec<u8>, bool, Option<Vec<u8>>)> = entries.iter().filter(|e| &e.0 == k).collect();
        if *bin {
            if m.get(k.as_str()).is_some() {
                ctx.violation("get-on-binary-key", format!("get({:?}) returned a value for a -bin key", k));
            }
            if m.get_all(k.as_str()).iter().count() != 0 {
                ctx.violation("get-all-on-binary-key", format!("get_all({:?}) yields values for a -bin key", k));
            }
            match m.get_bin(k.as_str()) {
                None => ctx.violation("get-bin-missing", format!("get_bin({:?}) is None", k)),
                Some(v) => {
                    // first value of the key
                    let first = vals[0];
                    match (&first.3, v.to_bytes()) {
                        (Some(raw), Ok(b)) if &b[..] == &raw[..] => {}
                        (None, Err(_)) => {}
                        (want, got) => ctx.violation("binary-value-decoding", format!("{}: to_bytes() = {:?}, original bytes {:?}", k, got.map(|b| hex(&b)), want.as_ref().map(|r| hex(r)))),
                    }
                }
            }
            let all: Vec<_> = m.get_all_bin(k.as_str()).iter().collect();
            {
                // read from the back: the same value objects, in reverse
                let mut back: Vec<_> = m.get_all_bin(k.as_str()).iter().rev().collect();
                back.reverse();
                if back != all {
                    ctx.violation("get-all-reverse-order", format!("{}: get_all_bin().iter().rev() does not yield the values of forward iteration reversed", k));
                }
                if all.len() > 1 {
                    ctx.count("acc.repeated_key_read_from_both_ends");
                    let mut it = m.get_all_bin(k.as_str()).iter();
                    if it.next_back() != all.last().copied() || it.next() != all.first().copied() {
                        ctx.violation("get-all-two-ended", format!("{}: next_back()/next() on get_all_bin() are not the last/first value", k));
                    }
                }
            }
            if all.len() != vals.len() {
                ctx.violation("get-all-bin-count", format!("{}: {} values, map has {}", k, all.len(), vals.len()));
            } else {
                for (v, e) in all.iter().zip(&vals) {
                    if let Some(raw) = &e.3 {
                        if v.to_bytes().ok().map(|b| b.to_vec()) != Some(raw.clone()) {
                            ctx.violation("binary-value-decoding", format!("{}: a repeated value does not decode to its bytes", k));
                        }
                        // equality and hash agree between the peer's form and a locally built value
                        let local = BinaryMetadataValue::from_bytes(raw);
                        if **v != local {
                            ctx.violation("binary-eq", format!("{}: peer form {:?} != locally built value for the same bytes", k, String::from_utf8_lossy(&e.1)));
                        } else if hash_of(*v) != hash_of(&local) {
                            ctx.violation("binary-hash", format!("{}: equal values hash differently", k));
                        }
                    }
                }
            }
        } else {
            if m.get_bin(k.as_str()).is_some() {
                ctx.violation("get-bin-on-ascii-key", format!("get_bin({:?}) returned a value for an ASCII key", k));
            }
            if m.get_all_bin(k.as_str()).iter().count() != 0 {
                ctx.violation("get-all-bin-on-ascii-key", format!("get_all_bin({:?}) yields values for an ASCII key", k));
            }
            match m.get(k.as_str()) {
                Some(v) if v.as_bytes() == &vals[0].1[..] => {}
                other => ctx.violation("get-ascii", format!("get({:?}) = {:?}, want {:?}", k, other.map(|v| v.as_bytes().to_vec()), String::from_utf8_lossy(&vals[0].1))),
            }
            let all: Vec<Vec<u8>> = m.get_all(k.as_str()).iter().map(|v| v.as_bytes().to_vec()).collect();
            let want: Vec<Vec<u8>> = vals.iter().map(|e| e.1.clone()).collect();
            if all != want {
                ctx.violation("get-all-order", format!("{}: get_all order/values differ", k));
            }
            // the same values read from the back, and from both ends alternately
            let mut back: Vec<Vec<u8>> = m.get_all(k.as_str()).iter().rev().map(|v| v.as_bytes().to_vec()).collect();
            back.reverse();
            if back != want {
                ctx.violation("get-all-reverse-order", format!("{}: get_all().iter().rev() does not yield the values of forward iteration reversed", k));
            }
            {
                let mut it = m.get_all(k.as_str()).iter();
                let (mut front, mut tail) = (Vec::new(), Vec::new());
                loop {
                    match it.next() {
                        Some(v) => front.push(v.as_bytes().to_vec()),
                        None => break,
                    }
                    match it.next_back() {
                        Some(v) => tail.push(v.as_bytes().to_vec()),
                        None => break,
                    }
                }
                tail.reverse();
                front.extend(tail);
                if front != want {
                    ctx.violation("get-all-two-ended", format!("{}: alternating next()/next_back() on get_all() yields {} values in another order than the map's {}", k, front.len(), want.len()));
                }
            }
            if want.len() > 1 {
                ctx.count("acc.repeated_key_read_from_both_ends");
            }
        }
    }
    // into_headers is the inverse of from_headers
    if m.clone().into_headers() != hm {
        ctx.violation("into-headers", "from_headers -> into_headers changed the map".into());
    }
    // locally built maps: append/insert/remove typed APIs keep categorisation
    let mut m2 = MetadataMap::new();
    let spec = gen_meta(rng, 5, true);
    apply_meta(&mut m2, &spec);
    match meta_multimap(&m2) {
        Ok(mm) if mm == spec_multimap(&spec) => {}
        Ok(_) => ctx.violation("local-map-differs", "typed append produced a different multimap".into()),
        Err(e) => ctx.violation("local-map-categorisation", e),
    }
    // wire form of locally built binary values is well-formed base64
    for (k, v) in m2.clone().into_headers().iter() {
        if k.as_str().ends_with("-bin") && !b64_is_wellformed(v.as_bytes()) {
            ctx.violation("local-bin-wire-form", format!("{} = {:?}", k, String::from_utf8_lossy(v.as_bytes())));
        }
    }
    // ascii value equality
    if let Ok(a) = AsciiMetadataValue::try_from("abc") {
        let b: MetadataValue<tonic::metadata::Ascii> = "abc".parse().unwrap();
        if a != b || hash_of(&a) != hash_of(&b) {
            ctx.violation("ascii-eq", "equal ASCII values differ".into());
        }
    }
    let _ = AsciiMetadataKey::from_static("x");
    // ---- key classification is by the (case-insensitive) header name, however the caller spells it
    {
        let bin = rng.bool();
        let base = gen_key(rng, bin);
        let spelled: String = base.chars().map(|c| if c.is_ascii_lowercase() && rng.chance(1, 3) { c.to_ascii_uppercase() } else { c }).collect();
        let is_bin = base.ends_with("-bin");
        let a = AsciiMetadataKey::from_bytes(spelled.as_bytes());
        let b = tonic::metadata::BinaryMetadataKey::from_bytes(spelled.as_bytes());
        if spelled != base {
            ctx.count("acc.mixed_case_key");
        }
        match (&a, is_bin) {
            (Ok(k), true) => ctx.violation("ascii-key-with-bin-suffix", format!("AsciiMetadataKey::from_bytes({:?}) succeeded and names {:?}", spelled, k.as_str())),
            (Err(_), false) => ctx.violation("ascii-key-refused", format!("AsciiMetadataKey::from_bytes({:?}) failed", spelled)),
            (Ok(k), false) if k.as_str() != base => ctx.violation("key-name-differs", format!("{:?} became {:?}", spelled, k.as_str())),
            _ => {}
        }
        match (&b, is_bin) {
            (Ok(k), true) if k.as_str() != base => ctx.violation("key-name-differs", format!("{:?} became {:?}", spelled, k.as_str())),
            (Err(_), true) => ctx.violation("binary-key-refused", format!("BinaryMetadataKey::from_bytes({:?}) failed", spelled)),
            (Ok(k), false) => ctx.violation("binary-key-without-bin-suffix", format!("BinaryMetadataKey::from_bytes({:?}) succeeded and names {:?}", spelled, k.as_str())),
            _ => {}
        }
    }
    // ---- every way of building a binary value encodes the same bytes
    {
        let payload: Vec<u8> = if rng.chance(1, 2) {
            // opaque bytes that happen to look like base64 text
            let n = rng.urange(0, 24);
            (0..n).map(|_| *rng.pick(b"ABCDEFGHIJKLMNOPQRSTUVWXYZabcdefghijklmnopqrstuvwxyz0123456789+/")).collect()
        } else {
            gen_bin_value(rng)
        };
        let reference = BinaryMetadataValue::from_bytes(&payload);
        let variants: Vec<(&str, Option<BinaryMetadataValue>)> = vec![
            ("try_from(Bytes)", BinaryMetadataValue::try_from(bytes::Bytes::from(payload.clone())).ok()),
            ("try_from(&[u8])", BinaryMetadataValue::try_from(&payload[..]).ok()),
            ("try_from(Vec<u8>)", BinaryMetadataValue::try_from(payload.clone()).ok()),
        ];
        ctx.count("acc.binary_value_constructors");
        for (name, v) in variants {
            match v {
                None => ctx.violation("binary-constructor-failed", format!("{} refused {} opaque bytes", name, payload.len())),
                Some(v) => {
                    let back = v.to_bytes().map(|b| b.to_vec());
                    if back.as_ref().ok() != Some(&payload) || b64_decode(v.as_encoded_bytes()).as_deref() != Some(&payload[..]) || v != reference {
                        ctx.violation("binary-constructor-differs", format!("{} of {:?} carries {:?} on the wire, which decodes to {:?}", name, String::from_utf8_lossy(&payload), String::from_utf8_lossy(v.as_encoded_bytes()), back.ok().map(|b| String::from_utf8_lossy(&b).to_string())));
                    }
                }
            }
        }
    }
    // ---- an error status found in another error's source chain keeps its metadata
    #[cfg(feature = "full")]
    {
        let st = gen_status(rng);
        let mut want = st.clone();
        want.meta = strip_reserved(&want.meta);
        #[derive(Debug)]
        struct Wrapper(Box<dyn std::error::Error + Send + Sync>);
        impl std::fmt::Display for Wrapper {
            fn fmt(&self, f: &mut std::fmt::Formatter<'_>) -> std::fmt::Result {
                write!(f, "middleware error")
            }
        }
        impl std::error::Error for Wrapper {
            fn source(&self) -> Option<&(dyn std::error::Error + 'static)> {
                Some(&*self.0)
            }
        }
        let depth = rng.urange(0, 2);
        let mut e: Box<dyn std::error::Error + Send + Sync> = Box::new(st.build());
        for _ in 0..depth {
            e = Box::new(Wrapper(e));
        }
        let got = tonic::Status::from_error(e);
        let v = view_status(&got);
        ctx.count("acc.status_from_error_chain");
        if v.code != st.code || v.message != st.message || v.details != st.details {
            ctx.violation("status-chain-differs", format!("a status at depth {} of a source chain came back as code {} {:?}", depth, v.code, v.message));
        }
        match &v.meta {
            Err(e) => ctx.violation("status-chain-metadata", e.clone()),
            Ok(mm) => {
                if let Err(e) = multimap_includes(mm, &spec_multimap(&st.meta)) {
                    ctx.violation("status-chain-metadata", format!("a status found at depth {} of an error's source chain lost metadata: {}", depth, e));
                }
            }
        }
        let _ = want;
    }
    ctx.fingerprint(format!("acc|n{}|bin{}|res{}|rep{}", entries.len().min(5), entries.iter().filter(|e| e.2).count().min(3), entries.iter().any(|e| RESERVED.contains(&e.0.as_str())) as u8, (keys.len() < entries.len()) as u8), !entries.is_empty());
    ctx.sample(case_json);
}

/// The same tainted metadata through real HTTP/2 (HPACK, hyper's own header handling) over the
/// in-memory pipe: observed at the handler and at the client API.
#[cfg(feature = "full")]
fn h2_case(rng: &mut Rng, ctx: &mut Ctx, idx: u64) {
    use crate::props::c13::{run_scenario, PlannedCall, Scenario, Signal};
    use crate::transport::PipeCfg;
    let mut tag = 0u32;
    let ncalls = rng.urange(1, 3);
    let mut calls = Vec::new();
    let mut specs = Vec::new();
    let mut metas = Vec::new();
    for c in 0..ncalls {
        let shape = *rng.pick(&[Shape::Unary, Shape::ServerStream, Shape::Bidi, Shape::ClientStream]);
        let mut req_meta = gen_meta(rng, 5, false);
        taint(rng, &mut req_meta, &mut tag);
        let mut init_md = gen_meta(rng, 4, false);
        taint(rng, &mut init_md, &mut tag);
        let fails = rng.bool();
        let mut st = gen_status(rng);
        taint(rng, &mut st.meta, &mut tag);
        let streaming = matches!(shape, Shape::ServerStream | Shape::Bidi);
        let script = Script {
            initial_md: init_md.clone(),
            msgs: (0..if streaming { rng.urange(0, 2) } else { 1 }).map(|i| Msg { data: vec![i as u8; 3], seq: i as u64, tag: String::new() }).collect(),
            end: if fails { Some(st.clone()) } else { None },
            fail_up_front: fails && streaming && rng.bool(),
            ..Default::default()
        };
        let id = format!("h{}x{}", idx, c);
        specs.push(CallSpec { id: id.clone(), shape, req_msgs: vec![Msg::default()], req_meta: req_meta.clone(), req_pend: vec![], req_gaps_ms: vec![], timeout: None, pingpong: None });
        calls.push(PlannedCall { conn: 0, start_ms: rng.below(5), shape, script: script.clone(), id });
        metas.push((req_meta, init_md, st.meta.clone()));
    }
    let sc = Scenario {
        conns: 1, lazy: vec![true], conn_start_ms: vec![0], calls, specs, signal: Signal::Never, keep_clients: false,
        pipe_cfg: if rng.bool() { PipeCfg::plain() } else { PipeCfg::gen(rng) }, server_window: None, client_window: None, max_frame: None, seed: rng.u64(), server_timeout: None, endpoint_timeout: None, max_connection_age: None, opts: 0, listener_faults: vec![],
    };
    let case_json = json!({"calls": sc.calls.iter().zip(&metas).map(|(c, m)| json!({"shape": format!("{:?}", c.shape), "request_meta": meta_json(&m.0), "initial_md": meta_json(&m.1), "status_meta": meta_json(&m.2), "fails": c.script.end.is_some()})).collect::<Vec<_>>()});
    ctx.begin("h2", case_json.clone());
    let out = run_scenario(&sc);
    for (i, c) in sc.calls.iter().enumerate() {
        ctx.count("h2.calls");
        let Some(view) = &out.views[i] else {
            ctx.violation("call-open", "call did not complete".into());
            continue;
        };
        let log = &out.logs[i];
        // handler side: non-reserved entries intact, no tag under a reserved name
        if let Err(e) = multimap_includes(&log.req_meta, &spec_multimap(&strip_reserved(&metas[i].0))) {
            ctx.violation("handler-metadata-differs", format!("[h2] {}", e));
        }
        for (k, vs) in &log.req_meta {
            if RESERVED.contains(&k.as_str()) && vs.iter().any(|v| String::from_utf8_lossy(v).contains("USERVAL")) {
                ctx.violation_class("reserved-header-forged", &format!("h2-request-{}", k), format!("[h2] the handler received user metadata under the reserved name {}", k));
            }
        }
        // client side
        let mut stripped = c.script.clone();
        stripped.initial_md = strip_reserved(&metas[i].1);
        if let Some(e) = stripped.end.as_mut() {
            e.meta = strip_reserved(&e.meta);
        }
        for (d, what) in judge_call(c.shape, &stripped, view) {
            ctx.violation(&format!("client-{}", d), format!("[h2] {}", what));
        }
        let mut seen: Vec<(&String, &Vec<Vec<u8>>)> = view.head_meta.iter().collect();
        let status_meta = view.call_err.as_ref().or(match &view.end { Some(Err(s)) => Some(s), _ => None }).and_then(|s| s.meta.as_ref().ok());
        if let Some(m) = status_meta {
            seen.extend(m.iter());
        }
        for (k, vs) in seen {
            if RESERVED.contains(&k.as_str()) && vs.iter().any(|v| String::from_utf8_lossy(v).contains("USERVAL")) {
                ctx.violation_class("reserved-header-forged", &format!("h2-response-{}", k), format!("[h2] the client received user metadata under the reserved name {}", k));
            }
        }
    }
    ctx.fingerprint(format!("h2|calls{}|{}", ncalls, sc.calls.iter().map(|c| format!("{:?}{}", c.shape, c.script.end.is_some() as u8)).collect::<Vec<_>>().join(",")), true);
    ctx.sample(case_json);
}
