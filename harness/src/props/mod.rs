use crate::ctx::{Ctx, RunCfg};

pub mod c01;

pub struct Spec {
    pub id: &'static str,
    pub run: fn(&RunCfg) -> Ctx,
    pub level: &'static str,
    pub rule: &'static str,
    pub exhaustive: bool,
    pub assumptions: &'static [&'static str],
}

pub const COMMON_ASSUMPTIONS: &[&str] = &[
    "verdict covers only the executions this run produced (inputs, chunkings, schedules listed under coverage)",
    "reference oracles in harness/src/refc.rs transcribe the gRPC/HTTP specs correctly",
    "flate2/zstd called directly by the oracle decompress correctly",
];

pub fn lookup(id: &str) -> Option<Spec> {
    all().into_iter().find(|s| s.id == id)
}

pub fn all() -> Vec<Spec> {
    vec![
        Spec {
            id: "C01",
            run: c01::run,
            level: "exploration",
            rule: "cases drawn from (seed, monitor, index): encoding x role x codec x buffer_size x yield_threshold x message sizes (boundary set) x source readiness script; each encoded through the real EncodeBody, judged by the reference framing parser + independent decompressor, re-encoded under 3 other schedules (byte equality), then re-cut (7 cut styles, or every single/double cut in monitor `allcuts`) and decoded through the real Streaming. Fingerprint = enc|role|codec|buffer class|yield class|#msgs class|readiness class|what the cuts hit|#DATA frames class. Non-trivial = >=2 messages and at least one cut strictly inside a prefix or payload.",
            exhaustive: false,
            assumptions: COMMON_ASSUMPTIONS,
        },
    ]
}
