use crate::ctx::{Ctx, RunCfg};

pub mod c01;
#[cfg(feature = "full")]
pub mod c02;
#[cfg(feature = "full")]
pub mod c03;
pub mod c04;
#[cfg(feature = "full")]
pub mod c05;
pub mod c06;
pub mod c07;
pub mod c08;
#[cfg(feature = "full")]
pub mod c09;
#[cfg(feature = "full")]
pub mod c10;
#[cfg(feature = "full")]
pub mod c11;
pub mod c12;
#[cfg(feature = "full")]
pub mod c13;
#[cfg(feature = "full")]
pub mod c14;
#[cfg(feature = "full")]
pub mod c15;
pub mod c16;
pub mod c17;
#[cfg(feature = "full")]
pub mod c18;
#[cfg(feature = "full")]
pub mod c19;
pub mod c20;

pub struct Spec {
    pub id: &'static str,
    pub run: fn(&RunCfg) -> Ctx,
    pub level: &'static str,
    pub rule: &'static str,
    pub exhaustive: bool,
    pub assumptions: &'static [&'static str],
}

pub const COMMON_ASSUMPTIONS: &[&str] = &[
    "verdict covers only the executions this run produced (inputs, chunkings, schedules listed under coverage)",
    "reference oracles in harness/src/refc.rs transcribe the gRPC/HTTP specs correctly",
    "flate2/zstd called directly by the oracle decompress correctly",
];

pub fn lookup(id: &str) -> Option<Spec> {
    all().into_iter().find(|s| s.id == id)
}

pub fn all() -> Vec<Spec> {
    vec![
        Spec {
            id: "C01",
            run: c01::run,
            level: "exploration",
            rule: "cases drawn from (seed, monitor, index): encoding x role x codec x buffer_size x yield_threshold x message sizes (boundary set) x source readiness script; each encoded through the real EncodeBody, judged by the reference framing parser + independent decompressor, re-encoded under 3 other schedules (byte equality), then re-cut (7 cut styles, or every single/double cut in monitor `allcuts`) and decoded through the real Streaming. Fingerprint = enc|role|codec|buffer class|yield class|#msgs class|readiness class|what the cuts hit|#DATA frames class. Non-trivial = >=2 messages and at least one cut strictly inside a prefix or payload.",
            exhaustive: false,
            assumptions: COMMON_ASSUMPTIONS,
        },
        #[cfg(feature = "full")]
        Spec {
            id: "C02",
            run: c02::run,
            level: "exploration",
            rule: "a script (initial metadata, k messages, OK or Status(code 1..16, Unicode message, details, metadata), possibly failing up front, bidi read/write interleaving) drives the real generated server behind the real generated client for each of the 4 call shapes; loopback monitor: in-process transport whose request and response bodies are re-chunked (pieces of 1..max_piece bytes, merges across frames, injected Pending) - h2 monitor: real Endpoint/Server over a fragmenting in-memory pipe with tiny HTTP/2 windows on a paused clock. Oracle: reference model of the four shapes (judge_call) + handler-side log of received messages/metadata (judge_request). Fingerprint = transport|shape|k class|outcome code|up-front|#request msgs class|metadata class|piece size. Non-trivial = error outcome or >=2 messages in either direction. Additions: handler streams may be scripted to continue after their error item and every body is polled on after its trailers (nothing may follow the outcome); 1 call in 12 has its response stream reset (CANCELLED body error) before any status - the client must see a prefix and must not report success; 1 in 700 carries a message just above 4 MiB with the receiver configured for 6 MiB, mostly through a clone of the configured client.",
            exhaustive: false,
            assumptions: COMMON_ASSUMPTIONS,
        },
        #[cfg(feature = "full")]
        Spec {
            id: "C03",
            run: c03::run,
            level: "exploration",
            rule: "calls over the 4 shapes through the real generated client and server with each side's send-compression in {none, gzip, deflate, zstd}, outcomes in {OK, handler error (possibly up front), source error mid-stream, encode failure (a message over the server's encoding limit at any position)}; taps record the request head/body/trailers and the response head/body/trailers exactly as tonic's bodies produced them, and both bodies are polled 3 times beyond their end. Judge (in-process reference parser; and again offline by oracle_py/wirecheck.py over the JSONL wire log with Python zlib/gzip and the zstd CLI): POST, HTTP/2, /verif.v1.Verif/<Method>, content-type application/grpc, te: trailers; 200 + application/grpc; bodies are concatenations of frames with flag 0/1 and big-endian length, flag-1 payloads decompress with the announced grpc-encoding, payloads are the canonical protobuf serialization of the expected messages; exactly one grpc-status (headers of a body-less response or one trailers block, nothing after); request bodies carry no trailers. Fingerprint = shape|outcome|request encoding|response encoding|#request msgs class|#response msgs class. Non-trivial = non-OK outcome or any compression.",
            exhaustive: false,
            assumptions: COMMON_ASSUMPTIONS,
        },
        Spec {
            id: "C04",
            run: c04::run,
            level: "exploration",
            rule: "roundtrip: Status(code in all 17, Unicode/control/'%'/empty message, details 0..200 bytes (all lengths mod 3), metadata with repeats and -bin values) -> add_header / into_http -> every value checked against RFC 9110 field-value rules, the gRPC Percent-Encoded grammar and unpadded RFC 4648 with the harness's own codecs -> (details optionally re-padded as a peer may) -> from_header_map -> equality. total: header maps from a grammar of corruptions (out-of-range / non-numeric codes, lone '%', '%zz', invalid UTF-8, obs-text, invalid / padded / dubious base64), under catch_unwind; oracle: no panic, unknown codes -> UNKNOWN, undecodable field -> non-OK status, decodable fields equal independent decoding. httptable: every HTTP status 100..=599 through Streaming::new_response (exhaustive), with and without grpc-status trailers. h2table: HTTP/2 error codes 0..=13 + unknown through From<h2::Error>, from_error, From<Status> for h2::Error (exhaustive). Fingerprint = leg|code|message class|details length class|metadata size / corruption classes. Non-trivial = non-empty message or details (roundtrip), a corrupted field (total), any non-200 status / any reason (tables).",
            exhaustive: false,
            assumptions: COMMON_ASSUMPTIONS,
        },
        #[cfg(feature = "full")]
        Spec {
            id: "C05",
            run: c05::run,
            level: "exploration",
            rule: "server monitor: the generated server is configured with every ordered subset of {gzip,deflate,zstd} for sending x for accepting (16x16 grid walked systematically) and called directly with handcrafted requests over the 4 call shapes: grpc-accept-encoding from a grammar (permutations, OWS, empty items, unknown and near-miss tokens, duplicates, non-ASCII, absent), grpc-encoding in {absent, identity, each encoding, unknown, multi-token, non-UTF-8}, frames flagged 0/1, handler opt-out. client monitor: the generated client with every send/accept configuration against a capture service and scripted responses (grpc-encoding enabled / not enabled / identity / absent / unknown, flag 0/1). Oracle = negotiation model from the property text (response encoding in send INTERSECT offered, announced iff chosen, flag-1 frames decompress with it; non-enabled request/response encoding => UNIMPLEMENTED with grpc-accept-encoding listing exactly the enabled ones; flag 1 without encoding => INTERNAL; client sends/advertises exactly its configuration). Fingerprint = side|shape|#send|#accept|offer class|response encoding|request encoding|flag. Non-trivial = any compression configured, offered or refused.",
            exhaustive: false,
            assumptions: COMMON_ASSUMPTIONS,
        },
        Spec {
            id: "C06",
            run: c06::run,
            level: "exploration",
            rule: "declimit: streams of 1..5 frames (identity or compressed, flag 0/1) with the limit placed at target length -1/0/+1 (or from {0,1,4,5,100,4096,65536}, or the 4 MiB default with a 4 MiB-1/4 MiB/4 MiB+1 message), any chunking; oracle: exact accept/refuse by wire length, OUT_OF_RANGE, earlier messages delivered first, refusal no later than the DATA chunk that completes the 5-byte prefix, largest single allocation (counting allocator) under a bound independent of the declared length. hugeprefix: bare prefixes declaring 2^16..2^32-1 bytes. enclimit: EncodeBody (both roles, all encodings, all readiness classes) with the limit at the produced wire length -1/0/+1 learned from an unlimited run; oracle: bytes before the status equal the unlimited run's bytes of the earlier messages, then exactly one trailers (server, grpc-status 11) / one Err (client) and nothing after. enc4g (thorough): one 4 GiB+1 item => RESOURCE_EXHAUSTED. Fingerprint = side|enc|role/dir|n|position of oversized|relation to limit|cut style or readiness. Non-trivial = a message at or over the limit. Limits include values above 2^32 (nothing can exceed them); the rejection deadline is measured against a body that is Pending right after the chunk completing the prefix (reading ahead what is already there is free).",
            exhaustive: false,
            assumptions: COMMON_ASSUMPTIONS,
        },
        Spec {
            id: "C07",
            run: c07::run,
            level: "exploration",
            rule: "a valid stream (0..5 messages, any encoding, raw or prost codec) is mutated by one of 15 classes (bitflip, illegal flag, flag 1 without encoding, length +/- d, truncation, splice, duplicated prefix, garbage compressed payload, undecodable protobuf, raw random, huge declared length, over-limit, injected body error, or left valid), re-cut by 7 cut styles, optionally followed by OK / error / garbage trailers, and decoded by the real Streaming which is polled 8 more times after its first End/Err; monitor `truncate-all` truncates small streams at every byte. Oracle = reference framing parser + lenient independent decompressor + small protobuf parser deciding prefix-validity, must-fail / must-not-fail and finality. Fingerprint = mutation|enc|codec|direction|cut style|trailers kind|injected|#yielded|terminal. Non-trivial = any case whose input is not the unmutated valid stream.",
            exhaustive: false,
            assumptions: COMMON_ASSUMPTIONS,
        },
        Spec {
            id: "C08",
            run: c08::run,
            level: "exploration",
            rule: "wire monitor: request metadata, response initial metadata and error-status metadata (ASCII and -bin, repeated keys, byte strings of every length mod 3) with reserved names (te, user-agent, content-type, grpc-status, grpc-message, grpc-message-type) inserted at random positions carrying a USERVAL taint tag, sent through the generated client and server over the in-process transport whose 'network peer' optionally re-pads every -bin value; taps record the request head, response head and trailers. Oracle: every non-reserved entry on the wire under the same key, same ordered values, -bin values canonical unpadded base64; no header under a reserved name carries a taint tag; the handler and the client API see the original bytes whether or not the peer padded. accessors monitor: MetadataMap::from_headers over arbitrary peer headers (valid/invalid/padded base64, reserved names, repeats): iter/keys/values/get/get_bin/get_all/get_all_bin classify every key by its suffix, binary values decode to the original bytes, equality/hash agree between padded peer form and locally built values, into_headers is the inverse. Fingerprint = leg|shape|#reserved per place|peer pads|failure placement (wire) or entry/binary/reserved/repeat classes (accessors). Non-trivial = a reserved name present or a padding peer (wire); a non-empty map (accessors). The accessors monitor also builds keys from mixed-case spellings, binary values through every constructor with payloads that look like base64 text, and recovers statuses (with metadata) from depth 0..2 of another error's source chain.",
            exhaustive: false,
            assumptions: COMMON_ASSUMPTIONS,
        },
        #[cfg(feature = "full")]
        Spec {
            id: "C09",
            run: c09::run,
            level: "exploration",
            rule: "encode: Request::set_timeout on a boundary grid (10^k-1/10^k/10^k+1 of every unit, 99999999 of every unit and just beyond, 0, the 99999999 h maximum) plus random magnitudes; the header must match 1*8DIGIT unit, denote <= the request and lose < one unit (oracle: the harness's own parser), and the real parser (hook) must read it back. parse (hook): every unit x 1..8 digits x {all 9s, 10..0, all 0s, leading zeros, random} enumerated, plus malformed values (empty, no digits, bad unit, 9+ digits, signs, spaces, non-ASCII digits, fractions, exponents, huge) which must not be accepted. enforce: triples (caller grpc-timeout, Server::timeout, Endpoint::timeout, each optional) x handler latency at eff-2/eff+2/half/double/tie over the real Endpoint/Server on a paused clock: latency < eff => true outcome; latency > eff => CANCELLED 'Timeout expired' at virtual elapsed in [eff, eff+2 ms]; ties excluded. Fingerprint = leg|unit|digits / malformed class / which timeouts are set|relation. Non-trivial = every encode/parse case, enforcement cases with a strict before/after relation. One enforce case in ten sets one of the three timeouts to zero (elapsed at once).",
            exhaustive: false,
            assumptions: COMMON_ASSUMPTIONS,
        },
        #[cfg(feature = "full")]
        Spec {
            id: "C10",
            run: c10::run,
            level: "exploration",
            rule: "12 services generated by the real tonic-build with names that collide by prefix/suffix/case/package (a.S, a.Sx, a.s, S, a.b.S, aa.S, a.SS, a, a.S.M, b.S, aS, A.S; methods M, Mx, m, MM, N, S); a random subset (0..6) is registered in two random orders through three construction paths (Routes::default().add_service, RoutesBuilder, Routes::new) with a random subset behind InterceptedService; 8 request paths per configuration from 20 classes (exact, extended/truncated names, case flip, trailing/empty/middle/extra segments, percent-encoded letter, query, cross-service method, odd fixed paths, look-alikes). Oracle: string equality of uri.path() with '/S/M' of a registered service decides exactly which handler runs once (reply tag checked); otherwise no handler and HTTP 200 + grpc-status 12; both orders must agree. Fingerprint = path class|#registered|construction styles|hit|path length class. Non-trivial = a non-exact path, or an exact path that hit. Requests carry content-type application/grpc, +proto or +json (routing is by path alone).",
            exhaustive: false,
            assumptions: COMMON_ASSUMPTIONS,
        },
        #[cfg(feature = "full")]
        Spec {
            id: "C11",
            run: c11::run,
            level: "exploration",
            rule: "tokens monitor: random FileDescriptorSets (package absent / single / nested; service names CamelCase, acronym, snake_case, with digits; method names CamelCase, snake_case, Rust keywords; 1..6 methods over the 4 streaming kinds; options emit_package, default stubs, arc self, client/server only) are run through the real tonic_build::configure().compile_fds; the output is parsed with syn and, per method, the client's PathAndQuery literal, GrpcMethod pair, Grpc::<shape> call, request/response types and request/response streaming kinds, the server's match-arm literal, grpc.<shape> call, *Service<Req> impl, Response type and dispatched trait method, SERVICE_NAME / NamedService::NAME are extracted and compared with expectations the harness derives from the descriptor ('/' [package '.'] Service '/' Method). regeneration leg (legs/C11.quick.sh): /repo is copied to a scratch directory, the real `codegen` binary is run there and every generated file of tonic-health, tonic-reflection and tonic-types is byte-compared with the committed one. Fingerprint = package class|emit_package|stubs|arc|client/server|#services|#methods. Non-trivial = every descriptor set. The token monitor applies its detailed structural checks only where it recognises the generated dispatch (one match arm per full path) and checks string literals otherwise; documentation options (disable_comments for services and single rpcs) are part of the option space. compiled-and-run leg (c11gen, legs/C11.quick.sh): the generator output for a fixed family of 18 descriptor sets is compiled together with trait implementations and drivers derived from its public surface only, and every client method is called against its service's server under a tap (path sent, GrpcMethod, handler reached, message counts, signature shapes and types, NamedService::NAME).",
            exhaustive: false,
            assumptions: COMMON_ASSUMPTIONS,
        },
        Spec {
            id: "C12",
            run: c12::run,
            level: "exploration",
            rule: "http::Request generated over 10 methods x 5 versions x 10 URI shapes x header multimaps (repeated, reserved, -bin valid/invalid, grpc-timeout) x 3 extension marker types x a token body that records polls; interceptor action in {identity, insert, append, remove, ext insert/remove/replace, fresh request, reject(any code, Unicode message, details, metadata)} applied by the real InterceptedService in front of a capture service. Oracle: reference application of the action to the original header multimap and extension set; URI/method/version/body identity; on reject: capture count 0, HTTP 200 + application/grpc, empty body, status decoded by the harness's own codecs and by Status::from_header_map. Fingerprint = action|method|version|#headers class|reserved present|extension presence bits. Non-trivial = any non-identity action.",
            exhaustive: false,
            assumptions: COMMON_ASSUMPTIONS,
        },
        #[cfg(feature = "full")]
        Spec {
            id: "C13",
            run: c13::run,
            level: "fault_enumeration",
            rule: "scenario = 1..3 connections (fragmenting in-memory pipes, tiny or default HTTP/2 windows) x 1..6 scripted calls (unary / client-stream / server-stream / bidi with virtual start times, handler latencies, inter-message gaps) x a shutdown signal placed on a phase boundary of some call (-1/0/+1 ms) or fired in the very accept-loop iteration that takes the k-th connection x optional post-signal call on an old or a fresh connection x clients dropping or keeping their channels; real Server::serve_with_incoming_shutdown and real Endpoint/Channel on a paused clock. An event log (conn_offered/taken/closed, handler_enter/headers/msg/exit, call_start/end, signal_fired, serve_resolved) is checked offline: every call whose handler was entered before signal_fired ends with exactly its scripted outcome; every call ends; no conn_taken after signal_fired; serve_resolved comes after conn_closed of every taken connection and within 3600 virtual seconds of the last call's end. Fingerprint = multiset of call phases at the signal|#connections|clients kept|signal kind. Non-trivial = at least one accepted call still in flight at the signal. A third of the default-window scenarios configure Server::max_connection_age (3..60 ms).",
            exhaustive: false,
            assumptions: COMMON_ASSUMPTIONS,
        },
        #[cfg(feature = "full")]
        Spec {
            id: "C14",
            run: c14::run,
            level: "fault_enumeration",
            rule: "fault scripts enumerated completely: quick (lazy|eager) x connect outcomes {fail, ok}^<=3 x operations {call, kill}^<=4 = 1800 scripts; thorough outcomes ^<=5 x operations {call, kill, two calls}^<=6 = 137592 scripts; plus sampled longer scripts (<=8 outcomes, <=10 operations incl. back-to-back calls, two calls issued at the same instant on clones of the client, and a slow call whose connection the peer drops while it is in flight) under random Endpoint options; a scripted connector consumes one outcome per invocation and hands the peer half of a fragmenting in-memory pipe to a real tonic server; `kill` resets the live pipe (wakes parked I/O); a generated-client call is issued at each quiescent point of a paused clock. Oracle = reference model driven by the connector invocations observed during each call (live => Ok with no attempt; attempt ok => Ok; attempts all failed => UNAVAILABLE; no attempt while disconnected => violation; eager initial failure => Err after exactly one invocation; every call resolves within 60 virtual seconds; Ok => handler ran once; concurrent pair: failed calls <= failed attempts observed meanwhile, i.e. no failure is handed to two calls; call killed in flight: resolves, with an error). Fingerprint = lazy/eager + sequence of model transitions. Non-trivial = contains a kill, a failed attempt or an eager initial failure.",
            exhaustive: false,
            assumptions: COMMON_ASSUMPTIONS,
        },
        #[cfg(feature = "full")]
        Spec {
            id: "C15",
            run: c15::run,
            level: "fault_enumeration",
            rule: "the full configuration matrix is enumerated on every run: client roots {right CA, other CA, none} x domain {configured matching, configured non-matching, from URI matching, from URI non-matching} x server ALPN {h2 (tonic's own Server::tls_config), none, http/1.1 (harness rustls acceptor feeding tonic's serve_with_incoming)} x assume_http2 x server client-auth {none, required, optional} x client identity {none, valid, issued by another CA} x (tonic server only) ignore_client_order = 864 real rustls handshakes over the in-memory pipe (thorough: x12 with fragmenting pipes), plus https-URI-without-TLS-config cases. Oracle = decision table from the property text (success iff chain AND name AND (h2 negotiated OR assume_http2) AND client-auth rule); on expected failure the handler counter stays 0; the client's first bytes are a TLS handshake record and the plaintext preface never appears; Request::peer_certs() is Some(1) exactly when a client chain was verified. Fingerprint = the matrix cell + repetition. Non-trivial = every cell. Repetitions after the first vary what must not matter: fragmenting pipes, the order of the builder calls on ServerTlsConfig and ClientTlsConfig, eager or lazy connect, and which non-matching name is configured (including strings that are not DNS names).",
            exhaustive: true,
            assumptions: COMMON_ASSUMPTIONS,
        },
        Spec {
            id: "C16",
            run: c16::run,
            level: "exploration",
            rule: "response monitor: the inner gRPC service answers with 0..4 message frames (0..3000 bytes, flag 0/1) re-cut by 7 cut styles (frames split across and merged into body chunks, empty chunks, Pending) and generated trailers (':' and spaces in values, repeated names); the request's Accept picks binary or base64 text; an independent grpc-web decoder (own base64, own frame parser, own HTTP/1 block parser) must recover the identical message bytes, then exactly one 0x80 frame listing every trailer, nothing after, and the content-type that matches Accept. request monitor: gRPC bytes encoded by the harness as binary or as one base64 run (padded or not), cut at arbitrary positions incl. every position mod 4, must reach the inner service as the original bytes with content-type application/grpc and te: trailers, head otherwise intact. matrix monitor: all 7 methods x 3 versions x 10 content-types: 405 / 400 / served / untouched pass-through (exhaustive, 210 cases). Fingerprint = leg|text/binary|#frames|#trailers|cut style|accept (or the matrix cell). Non-trivial = at least one frame and one cut; every matrix cell. Requests carry gRPC's own headers (grpc-accept-encoding, grpc-encoding, grpc-timeout; present or absent) and custom metadata, which the inner service must see unchanged.",
            exhaustive: false,
            assumptions: COMMON_ASSUMPTIONS,
        },
        Spec {
            id: "C17",
            run: c17::run,
            level: "exploration",
            rule: "grpc-web response bodies built by the harness's own encoder (0..4 message frames of 0..3000 bytes with flag 0/1, then one 0x80 frame whose block lists generated trailers: values containing ':' and spaces, repeated names, optional space after the colon, grpc-status at any position) are delivered through GrpcWebClientService under 7 cut styles; monitor `allcuts` applies every single cut, every double cut among the first 30 bytes and every double cut around the trailers frame to small bodies; monitor `truncate` cuts small bodies off at every byte. Oracle: data bytes = the message frames, trailers equal as multimap, nothing after the end; truncation strictly inside a frame must produce an error; always: no panic, no Pending without wake-up, inner body not polled >64 times after its end, poll budget. Monitor `request` checks the request direction. Fingerprint = leg|what the cuts hit (+colon, +repeated)|#frames|#trailers|cut style. Non-trivial = at least one message frame and one cut (complete), any truncation strictly inside a frame.",
            exhaustive: false,
            assumptions: COMMON_ASSUMPTIONS,
        },
        #[cfg(feature = "full")]
        Spec {
            id: "C18",
            run: c18::run,
            level: "exploration",
            rule: "sequential monitor: random histories (3..30 ops) over {set, clear, check, watch, next(watcher)} on services {'', 'a', 'b'} through the generated HealthClient over the in-process transport; watchers are polled the way an executor would (only when never polled or woken since their last Pending), then run to quiescence once updates stop. Oracle = sequential model: check = latest set / NOT_FOUND ('' SERVING by default); watch of an unregistered name NOT_FOUND; every reported status is a subsequence of the statuses that registration held since subscription; at quiescence the last report equals the registration's latest status; a cleared registration ends its streams after the unreported final status; a registered one never ends. concurrent monitor: multi-thread runtime, 2-3 writers (set/clear), 2-3 checkers, 1-3 watchers, operations timestamped at the client boundary; per-service Wing-Gong linearizability search against a register model (2 s timeout => inconclusive) plus watch constraints (only set values, last = final status). Fingerprint = leg|history size class|#watchers|#clears (sequential) or task counts (concurrent). Non-trivial = history with at least one watcher. race / race2 monitors: forced interleavings on a current-thread runtime with a paused clock - one writer first burns k units of tokio's cooperative budget so that a lock acquisition inside the reporter yields; two first-time registrations with a watcher subscribing in between (race), or a set/clear pair on a registered, watched service judged against both sequential orders (race2).",
            exhaustive: false,
            assumptions: COMMON_ASSUMPTIONS,
        },
        #[cfg(feature = "full")]
        Spec {
            id: "C19",
            run: c19::run,
            level: "exploration",
            rule: "1..4 generated files (package absent / single / nested, plain or nested file names) with messages nested to depth 3 (including field-less 'namespace' messages that only contain nested declarations), fields, oneofs, nested and top-level enums with values, services with methods, all names unique; the files are grouped into 1..3 registration sets, optionally with a shared file placed first in every set followed by new files, optionally with a file repeated, each set registered decoded or encoded; built as v1 and v1alpha with/without include_reflection_service and with_service_name; the harness walks the descriptors itself to enumerate every fully-qualified name with its declaring file and queries them all (shuffled) on one bidi stream through the generated clients, plus every file name and ListServices; mutated/unknown names (suffix, truncation, leading/trailing dot, case, foreign package, bare package) are asked on their own streams. Oracle: each declared name/file returns exactly one descriptor that prost decodes to a value equal to the registered file; ListServices equals the declared (or chosen) services as a multiset; unknown names NOT_FOUND; v1 and v1alpha answer identically. Enum values are addressed as <enum>.<VALUE>; the C++-scoped spelling is left unconstrained. Fingerprint = #files|#sets|duplicate|shared-then-new|include|chosen|#symbols class. Non-trivial = at least 5 declared symbols.",
            exhaustive: false,
            assumptions: COMMON_ASSUMPTIONS,
        },
        Spec {
            id: "C20",
            run: c20::run,
            level: "exploration",
            rule: "vec monitor: Vec<ErrorDetail> of length 0..12 over the 10 standard kinds (repeats, any order; Unicode/empty strings, 0..5 violations/links, retry delays incl. 0, 1 ns, > i64::MAX ns, the protobuf maximum) attached with with_error_details_vec[_and_metadata]; set monitor: every subset of the 10 kinds (the 1024 masks are walked systematically) attached with with_error_details; each status goes through Status::into_http and Status::from_header_map, then check_/get_ and the per-kind getters are compared field-wise with what was attached, and the embedded google.rpc.Status parsed by the harness's own protobuf parser must carry the outer code, message and the number of details. garbage monitor: arbitrary bytes, truncated valid encodings, bit flips, Any with a known type URL and a garbage value: no panic, get_ is empty when check_ fails. Fingerprint = leg|length class|#distinct kinds|metadata (vec), the kinds mask (set), kind and decode outcomes (garbage). Non-trivial = at least one detail / any garbage input.",
            exhaustive: false,
            assumptions: COMMON_ASSUMPTIONS,
        },
    ]
}
