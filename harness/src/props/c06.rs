//! C06 — message size limits are enforced exactly and without collateral loss.
use crate::alloc;
use crate::codec_drv::*;
use crate::ctx::*;
use crate::pb::{RawDecoder, RawEncoder};
use crate::prng::Rng;
use crate::props::c01::source_steps;
use crate::refc::*;
use crate::script::*;
use serde_json::json;

pub fn run(cfg: &RunCfg) -> Ctx {
    let mut all = Ctx::new();
    all.merge(par_cases(cfg, "declimit", cfg.n(16_000, 16 * 160_000), || (), |_, rng, ctx, _| dec_case(rng, ctx)));
    all.merge(par_cases(cfg, "hugeprefix", cfg.n(2400, 16 * 16_000), || (), |_, rng, ctx, _| huge_case(rng, ctx)));
    all.merge(par_cases(cfg, "enclimit", cfg.n(12_000, 16 * 120_000), || (), |_, rng, ctx, _| enc_case(rng, ctx)));
    #[cfg(feature = "full")]
    if !small() {
        all.merge(par_cases(cfg, "plumbing", cfg.n(1500, 16 * 6000), || (), |_, rng, ctx, i| plumbing_case(rng, ctx, i)));
        for k in ["plumb.server-decode", "plumb.client-decode", "plumb.server-encode", "plumb.client-encode", "plumb.server-decode-default", "plumb.client-decode-default", "plumb.rel.-1", "plumb.rel.0", "plumb.rel.1"] {
            all.floor(k, 3);
        }
    }
    if !small() {
        all.merge(seq_cases(cfg, "enc4g-lazy", 8, |_, ctx, i| enc_4g_lazy(ctx, i)));
    }
    if cfg.thorough && cfg.only.is_none() && std::env::var("VERIF_SKIP_4G").is_err() {
        all.merge(seq_cases(cfg, "enc4g", 1, |_, ctx, _| enc_4g(ctx)));
    }
    for k in ["dec.rel.-1", "dec.rel.0", "dec.rel.1", "enc.rel.-1", "enc.rel.0", "enc.rel.1", "dec.default_limit", "enc.batched_with_oversized", "dec.alloc_measured", "huge.limit_above_u32"] {
        all.floor(k, 3);
    }
    all
}

fn dec_case(rng: &mut Rng, ctx: &mut Ctx) {
    let enc = *rng.pick(Enc::all());
    let request = rng.bool();
    let bs = *rng.pick(&[1usize, 64, 8192]);
    let default_limit = !small() && rng.chance(1, 60);
    let n = rng.urange(1, 5);
    let target = rng.usize_below(n);
    let rel: i64 = rng.range(0, 2) as i64 - 1; // limit = target_len + rel  => rel -1 rejects
    // build frames
    let mut frames: Vec<(u8, Vec<u8>)> = Vec::new();
    for i in 0..n {
        let size = if default_limit && i == target {
            0 // filled below
        } else {
            *rng.pick(&[0usize, 1, 3, 4, 5, 6, 50, 100, 101, 300])
        };
        let payload = rng.payload(size);
        if enc != Enc::Identity && rng.chance(3, 4) {
            frames.push((1, ref_compress(enc, &payload)));
        } else {
            frames.push((0, payload));
        }
    }
    let limit_opt: Option<usize>;
    if default_limit {
        let l = 4 * 1024 * 1024;
        let len = (l as i64 - rel) as usize; // rel -1 => len = L+1
        frames[target] = (0, vec![0x5a; len]);
        limit_opt = None;
        ctx.count("dec.default_limit");
    } else if rng.chance(1, 4) {
        limit_opt = Some(*rng.pick(&[0usize, 1, 4, 5, 100, 4096, 65536, 1 << 32, (1 << 32) + 16, 1 << 40]));
    } else {
        let tl = frames[target].1.len() as i64;
        limit_opt = Some((tl + rel).max(0) as usize);
    }
    let limit = limit_opt.unwrap_or(4 * 1024 * 1024);
    let mut wire = Vec::new();
    let mut starts = Vec::new();
    for (f, p) in &frames {
        starts.push(wire.len());
        wire.extend(ref_frame(*f, p));
    }
    // expected
    let first_over = frames.iter().position(|(_, p)| p.len() > limit);
    let accepted = first_over.unwrap_or(frames.len());
    let rel_seen = first_over.map(|i| frames[i].1.len() as i64 - limit as i64);
    let class = format!("{}-{}", if enc == Enc::Identity { "identity" } else { "compressed" }, if request { "req" } else { "resp" });
    let case_json = json!({"enc": enc.name(), "dir": if request {"request"} else {"response"}, "limit": limit_opt, "frame_lens": frames.iter().map(|f| f.1.len()).collect::<Vec<_>>(),
        "flags": frames.iter().map(|f| f.0).collect::<Vec<_>>(), "buffer_size": bs});
    ctx.begin(&class, case_json.clone());
    if let Some(i) = first_over {
        let d = frames[i].1.len() as i64 - limit as i64;
        if d == 1 {
            ctx.count("dec.rel.-1");
        }
    } else {
        let tl = frames[target].1.len();
        if tl == limit {
            ctx.count("dec.rel.0");
        } else if tl + 1 == limit {
            ctx.count("dec.rel.1");
        }
    }
    // chunking
    let style = *rng.pick(CUT_STYLES);
    let cuts = cut_positions(rng, wire.len(), style, &starts);
    let chunks = split_at_cuts(&wire, &cuts);
    let max_chunk = chunks.iter().map(|c| c.len()).max().unwrap_or(0);
    let mut steps = body_steps(rng, chunks, 1, 4, false);
    // data-step index by which the 5th prefix byte of the oversized frame is delivered
    let deadline_step = first_over.map(|i| {
        let need = starts[i] + 5;
        let mut cum = 0;
        let mut k = 0;
        for s in &steps {
            if let BStep::Data(d) = s {
                cum += d.len();
                k += 1;
                if cum >= need {
                    break;
                }
            }
        }
        k
    });
    // "as soon as its length prefix has been read": the rest of the body has not arrived yet when
    // the prefix is complete (the body is Pending right after that chunk), so a decoder that
    // reads ahead whatever is already there is not penalised, one that waits for more data is
    if let Some(k) = deadline_step {
        let mut seen = 0;
        let mut at = None;
        for (i, s) in steps.iter().enumerate() {
            if let BStep::Data(_) = s {
                seen += 1;
                if seen == k {
                    at = Some(i);
                    break;
                }
            }
        }
        if let Some(i) = at {
            if !matches!(steps.get(i + 1), Some(BStep::Pending)) {
                steps.insert(i + 1, BStep::Pending);
            }
        }
    }
    let dir = if request { Dir::Request } else { Dir::Response(200) };
    let expected_payloads: Vec<Vec<u8>> = frames[..accepted]
        .iter()
        .map(|(f, p)| if *f == 1 { ref_decompress(enc, p).unwrap() } else { p.clone() })
        .collect();
    let (out, st) = alloc::measure(|| decode_run(RawDecoder { bs: (bs, 32768) }, steps, dir, enc, limit_opt, 3, false, false));
    if out.stalled || out.budget {
        ctx.violation("hang", format!("decoder stalled={} budget={}", out.stalled, out.budget));
        return;
    }
    let got = out.msgs();
    if got.len() != expected_payloads.len() || got.iter().zip(&expected_payloads).any(|(a, b)| *a != b) {
        ctx.violation(
            if first_over.is_some() { "collateral-loss" } else { "accepted-differs" },
            format!("delivered {} messages, expected {} before the verdict on the oversized one (limit {}, lens {:?})", got.len(), expected_payloads.len(), limit, frames.iter().map(|f| f.1.len()).collect::<Vec<_>>()),
        );
    }
    let ti = out.first_terminal();
    match (first_over, ti.map(|i| &out.seq[i])) {
        (Some(_), Some(DItem::Err(s))) => {
            if s.code() != tonic::Code::OutOfRange {
                ctx.violation("wrong-code", format!("oversized message refused with {:?}, want OutOfRange", s.code()));
            }
            // promptness: refused once the prefix was readable
            let at = out.data_steps_at[ti.unwrap()];
            if at > deadline_step.unwrap() {
                ctx.violation("late-rejection", format!("rejected only after {} DATA chunks; the prefix was complete after {} and the body was not ready with more at that point", at, deadline_step.unwrap()));
            }
            ctx.count("dec.rejections_observed");
        }
        (Some(i), other) => {
            ctx.violation("oversized-accepted", format!("message {} of {} bytes passed a limit of {} ({:?})", i, frames[i].1.len(), limit, other.map(|x| match x { DItem::End => "end".to_string(), DItem::Msg(_) => "msg".into(), DItem::Err(s) => status_brief(s) })));
        }
        (None, Some(DItem::End)) => {}
        (None, Some(DItem::Err(s))) => {
            ctx.violation("within-limit-rejected", format!("all messages within limit {} but stream failed: {}", limit, status_brief(s)));
        }
        (None, _) => ctx.violation("no-terminal", "no end".into()),
    }
    // allocation ceiling
    if alloc::INSTALLED.load(std::sync::atomic::Ordering::SeqCst) {
        let largest_ok = frames[..accepted].iter().map(|f| f.1.len()).max().unwrap_or(0);
        let largest_decomp = expected_payloads.iter().map(|p| p.len()).max().unwrap_or(0);
        let bound = 2 * largest_ok.max(bs).max(max_chunk).max(largest_decomp).max(wire.len().min(limit + 5)) + 1024 * 1024; // 1 MiB slack: decompressor-internal buffers (zstd uses 128 KiB)
        ctx.count("dec.alloc_measured");
        ctx.max("max.dec.single_alloc", st.max_single as u64);
        if st.max_single > bound && first_over.is_some() {
            ctx.violation("alloc-before-check", format!("largest single allocation {} bytes exceeds bound {} while refusing a {}-byte message", st.max_single, bound, frames[first_over.unwrap()].1.len()));
        }
    }
    ctx.fingerprint(
        format!("dec|{}|{}|n{}|over@{:?}|rel{:?}|{:?}|lim{}", enc.name(), if request {"req"} else {"resp"}, n, first_over, rel_seen.map(|d| d.min(2)), style,
            match limit_opt { None => "default".to_string(), Some(l) if l <= 5 => l.to_string(), Some(_) => "n".into() }),
        first_over.is_some() || frames.iter().any(|f| f.1.len() == limit),
    );
    ctx.sample(case_json);
}

fn huge_case(rng: &mut Rng, ctx: &mut Ctx) {
    let request = rng.bool();
    let limit_opt = match rng.below(4) {
        0 => None,
        1 => Some(usize::MAX),
        // limits above 2^32 are legal too (the length prefix can never exceed them)
        _ => Some(*rng.pick(&[0usize, 100, 65535, 65536, 1 << 20, (1 << 32) - 2, 1 << 32, (1 << 32) + 16, 1 << 40, usize::MAX - 1])),
    };
    let limit = limit_opt.unwrap_or(4 * 1024 * 1024);
    if limit > u32::MAX as usize && limit != usize::MAX {
        ctx.count("huge.limit_above_u32");
    }
    let declared: u32 = match rng.below(6) {
        0 => u32::MAX,
        1 => 1 << 31,
        2 => (limit as u64).saturating_add(1).min(u32::MAX as u64) as u32,
        3 => 1 << 16,
        _ => rng.range(1 << 16, u32::MAX as u64) as u32,
    };
    let follow = rng.urange(0, 20);
    let mut wire = vec![0u8];
    wire.extend_from_slice(&declared.to_be_bytes());
    wire.extend(rng.bytes(follow));
    let over = declared as usize > limit;
    let class = if over { "over" } else { "within" };
    let case_json = json!({"dir": if request {"request"} else {"response"}, "limit": limit_opt.map(|l| l as u64), "declared": declared, "following_bytes": follow});
    ctx.begin(class, case_json.clone());
    let style = *rng.pick(&[CutStyle::Whole, CutStyle::EveryByte, CutStyle::Two]);
    let cuts = cut_positions(rng, wire.len(), style, &[]);
    let steps = body_steps(rng, split_at_cuts(&wire, &cuts), 1, 4, false);
    let dir = if request { Dir::Request } else { Dir::Response(200) };
    if !over && declared as u64 > (1 << 28) {
        // a declared length within a huge limit is allowed to reserve memory: skip (would only
        // measure the allocator), but count it
        ctx.count("huge.within_limit_skipped");
        return;
    }
    let (out, st) = alloc::measure(|| decode_run(RawDecoder { bs: (8192, 32768) }, steps, dir, Enc::Identity, limit_opt, 2, false, false));
    if out.stalled || out.budget {
        ctx.violation("hang", "decoder did not terminate".into());
        return;
    }
    match out.first_terminal().map(|i| &out.seq[i]) {
        Some(DItem::Err(s)) => {
            if over && s.code() != tonic::Code::OutOfRange {
                ctx.violation("wrong-code", format!("declared {} over limit {} refused with {}", declared, limit, status_brief(s)));
            }
            if !over && s.code() == tonic::Code::OutOfRange {
                ctx.violation("within-limit-rejected", format!("declared {} within limit {} refused as out of range", declared, limit));
            }
        }
        Some(DItem::End) => ctx.violation("clean-end", format!("declared {} bytes, {} followed, stream ended cleanly", declared, follow)),
        _ => ctx.violation("message-from-nothing", "a message was produced from a bare prefix".into()),
    }
    if over && alloc::INSTALLED.load(std::sync::atomic::Ordering::SeqCst) {
        ctx.count("dec.alloc_measured");
        ctx.max("max.huge.single_alloc", st.max_single as u64);
        if st.max_single > 128 * 1024 {
            ctx.violation("alloc-before-check", format!("largest single allocation {} bytes while refusing a declared length of {}", st.max_single, declared));
        }
    }
    ctx.fingerprint(format!("huge|{}|{}|{}|{:?}", class, if request {"req"} else {"resp"}, match declared { u32::MAX => "max", 0x8000_0000 => "2^31", 0x1_0000 => "2^16", _ => "other" }, style), over);
    ctx.sample(case_json);
}

fn enc_case(rng: &mut Rng, ctx: &mut Ctx) {
    let enc = *rng.pick(Enc::all());
    let role = if rng.bool() { Role::Server } else { Role::Client };
    let bs = *rng.pick(&[1usize, 64, 8192]);
    let yt = *rng.pick(&[0usize, 64, 32768, 1 << 20]);
    let n = rng.urange(1, 6);
    let target = rng.usize_below(n);
    let sizes: Vec<usize> = (0..n).map(|_| if small() { *rng.pick(&[0usize, 1, 3, 5, 10, 40]) } else { *rng.pick(&[0usize, 1, 3, 5, 10, 100, 300, 3000]) }).collect();
    let items: Vec<Vec<u8>> = sizes.iter().map(|&s| rng.payload(s)).collect();
    let src_class = rng.below(4);
    // unlimited run to learn the on-the-wire lengths tonic produces
    let e0 = encode_run(RawEncoder { bs: (bs, yt), piecewise: false, chained: false }, source_steps(rng, &items, 0), enc, role, None, 0);
    let wire0 = e0.wire();
    let (frames0, tail0) = ref_parse(&wire0);
    if tail0 != Tail::Clean || frames0.len() != n {
        ctx.begin("setup", json!({"sizes": sizes}));
        ctx.violation("unlimited-run-bad", "unlimited encode did not produce n well-framed messages".into());
        return;
    }
    let rel: i64 = rng.range(0, 2) as i64 - 1;
    let limit = if rng.chance(1, 5) { *rng.pick(&[0usize, 1, 5, 100, 4096]) } else { (frames0[target].payload.len() as i64 + rel).max(0) as usize };
    let first_over = frames0.iter().position(|f| f.payload.len() > limit);
    let class = format!("{}-{:?}", if enc == Enc::Identity { "identity" } else { "compressed" }, role);
    let case_json = json!({"enc": enc.name(), "role": format!("{:?}", role), "limit": limit, "item_sizes": sizes, "wire_lens": frames0.iter().map(|f| f.payload.len()).collect::<Vec<_>>(),
        "buffer_size": bs, "yield_threshold": yt, "source_class": src_class});
    ctx.begin(&class, case_json.clone());
    match first_over {
        Some(i) if frames0[i].payload.len() == limit + 1 => ctx.count("enc.rel.-1"),
        None if frames0[target].payload.len() == limit => ctx.count("enc.rel.0"),
        None if frames0[target].payload.len() + 1 == limit => ctx.count("enc.rel.1"),
        _ => {}
    }
    if src_class == 0 && matches!(first_over, Some(i) if i > 0) {
        ctx.count("enc.batched_with_oversized");
    }
    let e1 = encode_run(RawEncoder { bs: (bs, yt), piecewise: false, chained: false }, source_steps(rng, &items, src_class), enc, role, Some(limit), 3);
    if e1.stalled || e1.budget {
        ctx.violation("hang", "encoder did not terminate".into());
        return;
    }
    if e1.after_end_non_none > 0 {
        ctx.violation("frame-after-end", "a frame was produced after the end of the body / after is_end_stream()".into());
    }
    // expected prefix of bytes
    let upto = first_over.map(|i| frames0[i].start).unwrap_or(wire0.len());
    let mut data = Vec::new();
    let mut status_seen: Option<(usize, String)> = None; // (frame index, kind)
    for (k, f) in e1.frames.iter().enumerate() {
        match f {
            EFrame::Data(d) => {
                if status_seen.is_some() {
                    ctx.violation("data-after-status", format!("DATA frame ({} bytes) after the final status", d.len()));
                } else {
                    data.extend_from_slice(d);
                }
            }
            EFrame::Trailers(t) => {
                if status_seen.is_some() {
                    ctx.violation("second-trailers", "two trailers frames".into());
                }
                let code = t.get("grpc-status").and_then(|v| v.to_str().ok()).unwrap_or("?").to_string();
                status_seen = Some((k, format!("trailers:{}", code)));
            }
            EFrame::Err(s) => {
                if status_seen.is_some() {
                    ctx.violation("second-status", "an error after the final status".into());
                }
                status_seen = Some((k, format!("err:{}", s.code() as i32)));
            }
        }
    }
    if data != wire0[..upto] {
        let (got_frames, _) = ref_parse(&data);
        ctx.violation(
            if first_over.is_some() { "collateral-loss" } else { "bytes-differ" },
            format!("bytes before the status: {} bytes / {} whole messages; expected {} bytes = messages 0..{}", data.len(), got_frames.len(), upto, first_over.unwrap_or(n)),
        );
    }
    let want = match (first_over, role) {
        (Some(_), Role::Server) => Some("trailers:11".to_string()),
        (Some(_), Role::Client) => Some("err:11".to_string()),
        (None, Role::Server) => Some("trailers:0".to_string()),
        (None, Role::Client) => None,
    };
    let got = status_seen.as_ref().map(|s| s.1.clone());
    if got != want {
        ctx.violation("wrong-final-status", format!("final status {:?}, want {:?}", got, want));
    }
    ctx.fingerprint(
        format!("enc|{}|{:?}|n{}|over@{:?}|src{}|yt{}|bs{}", enc.name(), role, n, first_over, src_class, yt, bs),
        first_over.is_some(),
    );
    ctx.sample(case_json);
}

/// One item just over 4 GiB: RESOURCE_EXHAUSTED, earlier message still delivered (thorough only).
/// The 4 GiB rule without 4 GiB of memory: the message only claims address space (both tiers).
fn enc_4g_lazy(ctx: &mut Ctx, i: u64) {
    let role = if i % 2 == 0 { Role::Server } else { Role::Client };
    let over = (u32::MAX as usize) + 1 + (i as usize / 2) * 4096;
    // with no send limit configured, and with one far above 4 GiB
    let limit = if (i / 2) % 2 == 0 { None } else { Some(1usize << 40) };
    ctx.begin("4g-lazy", json!({"role": format!("{:?}", role), "message_len": over as u64, "send_limit": limit.map(|l| l as u64)}));
    let steps = vec![SStep::Item(3usize), SStep::Item(over)];
    let out = encode_run(crate::pb::LenEncoder, steps, Enc::Identity, role, limit, 1);
    let mut data = Vec::new();
    let mut status = None;
    for f in &out.frames {
        match f {
            EFrame::Data(d) => {
                if status.is_some() {
                    ctx.violation("data-after-status", "DATA after status (4g)".into());
                }
                data.extend_from_slice(&d[..d.len().min(100)]);
            }
            EFrame::Trailers(t) => status = t.get("grpc-status").and_then(|v| v.to_str().ok()).map(|s| s.to_string()),
            EFrame::Err(s) => status = Some((s.code() as i32).to_string()),
        }
    }
    if status.as_deref() != Some("8") {
        ctx.violation("wrong-final-status", format!("a message of {} bytes (over 4 GiB) with send limit {:?}: status {:?}, want 8 (RESOURCE_EXHAUSTED)", over, limit, status));
    }
    if data != ref_frame(0, &[7, 7, 7]) {
        ctx.violation("collateral-loss", format!("message before the 4 GiB item not delivered intact ({} bytes seen)", data.len()));
    }
    ctx.count("enc4g.lazy_runs");
    ctx.fingerprint(format!("enc4g-lazy|{:?}|{}", role, limit.is_some()), true);
}

fn enc_4g(ctx: &mut Ctx) {
    ctx.begin("4g", json!({"items": [3, "4GiB+1"]}));
    // need ~9 GiB; skip when the machine cannot afford it
    let avail = std::fs::read_to_string("/proc/meminfo").ok().and_then(|s| {
        s.lines().find(|l| l.starts_with("MemAvailable:")).and_then(|l| l.split_whitespace().nth(1).and_then(|x| x.parse::<u64>().ok()))
    });
    if avail.map(|kb| kb < 20 * 1024 * 1024).unwrap_or(true) {
        ctx.count("enc4g.skipped_low_memory");
        return;
    }
    for role in [Role::Server, Role::Client] {
        let big = vec![0u8; (u32::MAX as usize) + 1];
        let steps = vec![SStep::Item(vec![1u8, 2, 3]), SStep::Item(big)];
        let out = encode_run(RawEncoder { bs: (8192, 1 << 40), piecewise: false, chained: false }, steps, Enc::Identity, role, None, 1);
        let mut data = Vec::new();
        let mut status = None;
        for f in &out.frames {
            match f {
                EFrame::Data(d) => {
                    if status.is_some() {
                        ctx.violation("data-after-status", "DATA after status (4g)".into());
                    }
                    if d.len() < 100 {
                        data.extend_from_slice(d)
                    } else {
                        data.extend_from_slice(&d[..100])
                    }
                }
                EFrame::Trailers(t) => status = t.get("grpc-status").and_then(|v| v.to_str().ok()).map(|s| s.to_string()),
                EFrame::Err(s) => status = Some((s.code() as i32).to_string()),
            }
        }
        if status.as_deref() != Some("8") {
            ctx.violation("wrong-final-status", format!("4 GiB+1 item: status {:?}, want 8 (RESOURCE_EXHAUSTED)", status));
        }
        if data != ref_frame(0, &[1, 2, 3]) {
            ctx.violation("collateral-loss", format!("message before the 4 GiB item not delivered intact ({} bytes seen)", data.len()));
        }
        ctx.count("enc4g.runs");
        ctx.fingerprint(format!("enc4g|{:?}", role), true);
    }
}

// ------------------------------------------------------------------ limits through the generated client/server

/// `max_decoding_message_size` / `max_encoding_message_size` of the generated client and server
/// (and the 4 MiB receive default) at L-1 / L / L+1, over the in-process transport.
#[cfg(feature = "full")]
pub fn plumbing_case(rng: &mut Rng, ctx: &mut Ctx, idx: u64) {
    use crate::exec::{Exec, Out};
    use crate::pb::verif::{verif_client::VerifClient, verif_server::VerifServer};
    use crate::pb::Msg;
    use crate::svc::*;
    // which limit is under test
    let which = *rng.pick(&["server-decode", "client-decode", "server-encode", "client-encode", "server-decode-default", "client-decode-default"]);
    let shape = *rng.pick(&SHAPES);
    let default = which.ends_with("default");
    let l: usize = if default { 4 * 1024 * 1024 } else { *rng.pick(&[8usize, 100, 1000, 70_000]) };
    let rel: i64 = rng.range(0, 2) as i64 - 1; // wire length = L + rel
    // a Msg whose encoded length is exactly `want`: field 1 (bytes) only => 1 + varint(len) + len
    let msg_of = |want: usize| -> Msg {
        let mut n = want.saturating_sub(2);
        loop {
            let m = Msg { data: vec![0x61; n], seq: 0, tag: String::new() };
            let e = ref_pb_encode(&m.data, 0, "").len();
            if e == want || n == 0 {
                return m;
            }
            if e > want { n -= 1 } else { n += 1 }
        }
    };
    let target_len = (l as i64 + rel).max(2) as usize;
    let big = msg_of(target_len);
    let actual = ref_pb_encode(&big.data, 0, "").len();
    let over = actual > l;
    let small = Msg { data: vec![1, 2, 3], seq: 1, tag: String::new() };
    let streaming_req = matches!(shape, Shape::ClientStream | Shape::Bidi);
    let streaming_resp = matches!(shape, Shape::ServerStream | Shape::Bidi);
    let on_request = which.starts_with("server-decode") || which == "client-encode";
    // place the big message after a small one when the direction streams
    let (req_msgs, resp_msgs) = if on_request {
        (if streaming_req { vec![small.clone(), big.clone()] } else { vec![big.clone()] }, if streaming_resp { vec![small.clone()] } else { vec![small.clone()] })
    } else {
        (vec![small.clone()], if streaming_resp { vec![small.clone(), big.clone()] } else { vec![big.clone()] })
    };
    let id = format!("p{}", idx);
    let case_json = json!({"limit_under_test": which, "shape": format!("{:?}", shape), "limit": l, "message_wire_len": actual, "over": over});
    ctx.begin(&format!("{}-{:?}", which, shape), case_json.clone());
    ctx.count(&format!("plumb.{}", which));
    ctx.count(&format!("plumb.rel.{}", actual as i64 - l as i64));
    let handler = Handler::new();
    handler.set_script(&id, Script { msgs: resp_msgs.clone(), ..Default::default() });
    let mut server = VerifServer::new(handler.clone());
    match which {
        "server-decode" => server = server.max_decoding_message_size(l),
        "server-encode" => server = server.max_encoding_message_size(l),
        _ => {}
    }
    if !which.starts_with("server-decode") {
        server = server.max_decoding_message_size(usize::MAX);
    }
    let mut client = VerifClient::new(Loopback::new(server, rng.u64(), 1 << 20));
    match which {
        "client-decode" => client = client.max_decoding_message_size(l),
        "client-encode" => client = client.max_encoding_message_size(l),
        _ => {}
    }
    if !which.starts_with("client-decode") {
        client = client.max_decoding_message_size(usize::MAX);
    }
    // generated clients are routinely cloned: the clone must carry the same limits
    let mut client = if rng.bool() { client.clone() } else { client };
    let spec = CallSpec { id: id.clone(), shape, req_msgs: req_msgs.clone(), req_meta: vec![], req_pend: vec![], req_gaps_ms: vec![], timeout: None, pingpong: None };
    let mut ex = Exec::new();
    let view = match ex.block_on(2_000_000, do_call(&mut client, &spec, None)) {
        Out::Done(v) => v,
        _ => {
            ctx.violation("hang", "call did not complete".into());
            return;
        }
    };
    let failure: Option<i32> = view.call_err.as_ref().map(|s| s.code).or(match &view.end { Some(Err(s)) => Some(s.code), _ => None });
    let log = handler.log(&id);
    if !over {
        // within the limit: everything must go through untouched
        let script = Script { msgs: resp_msgs.clone(), ..Default::default() };
        for (d, what) in judge_call(shape, &script, &view) {
            ctx.violation(&format!("within-limit-{}", d), format!("{} = {} with a {}-byte message: {}", which, l, actual, what));
        }
        for (d, what) in judge_request(&spec, &script, &log) {
            ctx.violation(&format!("within-limit-{}", d), what);
        }
    } else {
        match which {
            "server-decode" | "server-decode-default" => {
                // the handler must not receive the oversized message; the call ends OUT_OF_RANGE
                if log.req_msgs.iter().any(|m| m.data.len() == big.data.len()) {
                    ctx.violation("oversized-request-delivered", format!("the handler received a {}-byte message over the server's decoding limit {}", actual, l));
                }
                if streaming_req {
                    if log.req_end != Some(Err("OutOfRange".into())) {
                        ctx.violation("oversized-request-not-refused", format!("handler's request stream ended with {:?} (want Err(OutOfRange))", log.req_end));
                    } else if log.req_msgs.len() != 1 {
                        ctx.violation("collateral-loss", format!("handler received {} messages before the refusal, 1 was sent before the oversized one", log.req_msgs.len()));
                    }
                } else if failure != Some(11) {
                    ctx.violation("oversized-request-not-refused", format!("call outcome {:?} (want 11 OUT_OF_RANGE)", failure));
                }
            }
            "client-encode" => {
                if log.req_msgs.iter().any(|m| m.data.len() == big.data.len()) {
                    ctx.violation("oversized-request-sent", format!("a {}-byte message over the client's encoding limit {} reached the handler", actual, l));
                }
                // a streaming handler that answers without needing the failed request body may still
                // succeed; when the call fails it must be OUT_OF_RANGE
                if !streaming_req && failure != Some(11) {
                    ctx.violation("client-encode-limit-status", format!("call outcome {:?} (want 11)", failure));
                }
            }
            "server-encode" => {
                if view.msgs.iter().any(|m| m.data.len() == big.data.len()) {
                    ctx.violation("oversized-response-sent", format!("the client received a {}-byte message over the server's encoding limit {}", actual, l));
                }
                if failure != Some(11) {
                    ctx.violation("server-encode-limit-status", format!("call outcome {:?} (want 11)", failure));
                }
                if streaming_resp && view.msgs.len() != 1 {
                    ctx.violation("collateral-loss", format!("client saw {} messages before the status, 1 was produced before the oversized one", view.msgs.len()));
                }
            }
            _ => {
                // client-decode / client-decode-default
                if view.msgs.iter().any(|m| m.data.len() == big.data.len()) {
                    ctx.violation("oversized-response-accepted", format!("the client accepted a {}-byte message over its decoding limit {}", actual, l));
                }
                if failure != Some(11) {
                    ctx.violation("client-decode-limit-status", format!("call outcome {:?} (want 11)", failure));
                }
                if streaming_resp && view.msgs.len() != 1 {
                    ctx.violation("collateral-loss", format!("client saw {} messages before the refusal, 1 was sent before the oversized one", view.msgs.len()));
                }
            }
        }
    }
    ctx.fingerprint(format!("plumb|{}|{:?}|L{}|rel{}", which, shape, l, actual as i64 - l as i64), true);
    ctx.sample(case_json);
}
