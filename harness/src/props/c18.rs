//! C18 — health service reports the latest status to Check and Watch.
use crate::ctx::*;
use crate::exec::{Exec, Out};
use crate::prng::Rng;
use crate::svc::Loopback;
use serde_json::json;
use std::collections::HashMap;
use std::sync::atomic::{AtomicU64, Ordering};
use std::sync::{Arc, Mutex};
use tonic::Streaming;
use tonic_health::pb::health_client::HealthClient;
use tonic_health::pb::{HealthCheckRequest, HealthCheckResponse};
use tonic_health::ServingStatus;

const SERVICES: [&str; 3] = ["", "a", "b"];
struct Named0;
struct Named1;
struct Named2;
impl tonic::server::NamedService for Named0 {
    const NAME: &'static str = "";
}
impl tonic::server::NamedService for Named1 {
    const NAME: &'static str = "a";
}
impl tonic::server::NamedService for Named2 {
    const NAME: &'static str = "b";
}

fn st_of(i: u64) -> ServingStatus {
    match i % 3 {
        0 => ServingStatus::Unknown,
        1 => ServingStatus::Serving,
        _ => ServingStatus::NotServing,
    }
}
fn wire(s: ServingStatus) -> i32 {
    match s {
        ServingStatus::Unknown => 0,
        ServingStatus::Serving => 1,
        ServingStatus::NotServing => 2,
    }
}

pub fn run(cfg: &RunCfg) -> Ctx {
    let mut all = Ctx::new();
    all.merge(par_cases(cfg, "sequential", cfg.n(10_000, 16 * 400_000), || (), |_, rng, ctx, _| sequential(rng, ctx)));
    // the concurrent monitor owns a multi-thread runtime per history: run histories sequentially
    let mut c = cfg.clone();
    c.threads = 2;
    all.merge(par_cases(&c, "concurrent", cfg.n(400, 15_000), || (), |_, rng, ctx, _| concurrent(rng, ctx)));
    all.merge(par_cases(&c, "race", cfg.n(60, 1500), || (), |_, rng, ctx, _| race_case(rng, ctx)));
    all.floor("race.histories", 20);
    all.merge(par_cases(&c, "race2", cfg.n(120, 3000), || (), |_, rng, ctx, _| race2_case(rng, ctx)));
    all.floor("race2.histories", 40);
    all.floor("race2.with_clear", 10);
    all.merge(par_cases(&c, "race3", cfg.n(90, 2500), || (), |_, rng, ctx, _| race3_case(rng, ctx)));
    all.floor("race3.histories", 40);
    all.merge(par_cases(&c, "fresh", 22, || (), |_, rng, ctx, i| fresh_case(rng, ctx, i)));
    for k in ["seq.typed_set", "seq.check_found", "seq.check_not_found", "seq.watch_not_found", "seq.watch_items", "seq.stream_ended_by_clear", "seq.several_updates_after_subscription", "seq.redundant_set_then_change", "seq.set_then_clear_unpolled", "conc.histories_linearizable", "conc.watch_items"] {
        all.floor(k, 5);
    }
    all
}

struct Watcher {
    svc: usize,
    gen: usize,
    /// index into the generation's value history at subscription
    sub_at: usize,
    stream: Streaming<HealthCheckResponse>,
    ex: Exec,
    /// returned Pending at its last poll (an executor would only poll it again after a wake-up)
    parked: bool,
    wakes_at_pending: usize,
    reported: Vec<i32>,
    ended: bool,
    failed: Option<String>,
}

#[derive(Clone, Debug)]
struct Gen {
    /// every value the service held in this registration, in order (index 0 = value at registration)
    values: Vec<i32>,
    cleared: bool,
}

fn sequential(rng: &mut Rng, ctx: &mut Ctx) {
    let nops = rng.urange(3, 30);
    let (mut reporter, server) = tonic_health::server::health_reporter();
    let mut client = HealthClient::new(Loopback::new(server, rng.u64(), 1 << 20));
    let mut ex = Exec::new();
    // model
    let mut gens: Vec<Vec<Gen>> = vec![vec![Gen { values: vec![1], cleared: false }], vec![], vec![]]; // "" starts SERVING
    let cur = |gens: &Vec<Vec<Gen>>, s: usize| -> Option<i32> { gens[s].last().filter(|g| !g.cleared).map(|g| *g.values.last().unwrap()) };
    let mut watchers: Vec<Watcher> = Vec::new();
    let mut ops_log: Vec<String> = Vec::new();
    ctx.begin("history", json!({"ops": nops}));
    let mut last_set: Option<(usize, i32)> = None;
    for _ in 0..nops {
        let s = rng.usize_below(3);
        match rng.below(10) {
            0..=2 => {
                // set
                let st = st_of(rng.u64());
                ops_log.push(format!("set({:?},{})", SERVICES[s], wire(st)));
                // the typed shorthands are the same operation, spelled through `NamedService::NAME`
                let typed = rng.chance(1, 3) && st != ServingStatus::Unknown;
                let done = if typed {
                    ctx.count("seq.typed_set");
                    match (s, st) {
                        (0, ServingStatus::Serving) => matches!(ex.block_on(1000, reporter.set_serving::<Named0>()), Out::Done(())),
                        (1, ServingStatus::Serving) => matches!(ex.block_on(1000, reporter.set_serving::<Named1>()), Out::Done(())),
                        (_, ServingStatus::Serving) => matches!(ex.block_on(1000, reporter.set_serving::<Named2>()), Out::Done(())),
                        (0, _) => matches!(ex.block_on(1000, reporter.set_not_serving::<Named0>()), Out::Done(())),
                        (1, _) => matches!(ex.block_on(1000, reporter.set_not_serving::<Named1>()), Out::Done(())),
                        (_, _) => matches!(ex.block_on(1000, reporter.set_not_serving::<Named2>()), Out::Done(())),
                    }
                } else {
                    matches!(ex.block_on(1000, reporter.set_service_status(SERVICES[s], st)), Out::Done(()))
                };
                if !done {
                    ctx.violation("set-hang", "set_service_status did not complete".into());
                    return;
                }
                match gens[s].last_mut().filter(|g| !g.cleared) {
                    Some(g) => {
                        if g.values.last() == Some(&wire(st)) {
                            last_set = Some((s, wire(st)));
                        } else if last_set == Some((s, *g.values.last().unwrap())) {
                            ctx.count("seq.redundant_set_then_change");
                            last_set = None;
                        }
                        g.values.push(wire(st))
                    }
                    None => gens[s].push(Gen { values: vec![wire(st)], cleared: false }),
                }
            }
            3 => {
                ops_log.push(format!("clear({:?})", SERVICES[s]));
                if !matches!(ex.block_on(1000, reporter.clear_service_status(SERVICES[s])), Out::Done(())) {
                    ctx.violation("clear-hang", "clear_service_status did not complete".into());
                    return;
                }
                if let Some(g) = gens[s].last().filter(|g| !g.cleared) {
                    // a watcher that has not yet seen the latest value of this registration?
                    let gi = gens[s].len() - 1;
                    let latest = *g.values.last().unwrap();
                    if watchers.iter().any(|w| w.svc == s && w.gen == gi && !w.ended && w.reported.last() != Some(&latest)) {
                        ctx.count("seq.set_then_clear_unpolled");
                    }
                }
                if let Some(g) = gens[s].last_mut() {
                    g.cleared = true;
                }
            }
            4 | 5 => {
                // check
                let want = cur(&gens, s);
                ops_log.push(format!("check({:?})", SERVICES[s]));
                let r = ex.block_on(100_000, client.check(HealthCheckRequest { service: SERVICES[s].into() }));
                match (r, want) {
                    (Out::Done(Ok(resp)), Some(w)) => {
                        ctx.count("seq.check_found");
                        if resp.get_ref().status != w {
                            ctx.violation("check-stale", format!("check({:?}) returned {} but the most recently set status is {} (history: {})", SERVICES[s], resp.get_ref().status, w, ops_log.join(" ")));
                        }
                    }
                    (Out::Done(Err(e)), None) => {
                        ctx.count("seq.check_not_found");
                        if e.code() != tonic::Code::NotFound {
                            ctx.violation("check-wrong-code", format!("check of an unregistered service failed with {:?}", e.code()));
                        }
                    }
                    (Out::Done(Ok(resp)), None) => ctx.violation("check-found-unregistered", format!("check({:?}) returned {} for a service never set or since cleared", SERVICES[s], resp.get_ref().status)),
                    (Out::Done(Err(e)), Some(w)) => ctx.violation("check-failed", format!("check({:?}) failed with {:?}, status is {}", SERVICES[s], e.code(), w)),
                    _ => {
                        ctx.violation("check-hang", "check did not complete".into());
                        return;
                    }
                }
            }
            6 | 7 => {
                // watch
                ops_log.push(format!("watch({:?})", SERVICES[s]));
                let want = cur(&gens, s);
                let r = ex.block_on(100_000, client.watch(HealthCheckRequest { service: SERVICES[s].into() }));
                match (r, want) {
                    (Out::Done(Ok(resp)), Some(_)) => {
                        let g = gens[s].len() - 1;
                        watchers.push(Watcher { svc: s, gen: g, sub_at: gens[s][g].values.len() - 1, stream: resp.into_inner(), ex: Exec::new(), parked: false, wakes_at_pending: 0, reported: vec![], ended: false, failed: None });
                    }
                    (Out::Done(Err(e)), None) => {
                        ctx.count("seq.watch_not_found");
                        if e.code() != tonic::Code::NotFound {
                            ctx.violation("watch-wrong-code", format!("{:?}", e.code()));
                        }
                    }
                    (Out::Done(Ok(resp)), None) => {
                        // the NOT_FOUND may also arrive as the stream's first (and only) item
                        let mut st = resp.into_inner();
                        let mut ex2 = Exec::new();
                        match ex2.block_on(100_000, st.message()) {
                            Out::Done(Err(e)) if e.code() == tonic::Code::NotFound => ctx.count("seq.watch_not_found"),
                            Out::Done(Err(e)) => ctx.violation("watch-wrong-code", format!("{:?}", e.code())),
                            _ => ctx.violation("watch-found-unregistered", format!("watch({:?}) succeeded for an unregistered service", SERVICES[s])),
                        }
                    }
                    (Out::Done(Err(e)), Some(_)) => ctx.violation("watch-failed", format!("watch({:?}) failed: {:?}", SERVICES[s], e.code())),
                    _ => {
                        ctx.violation("watch-hang", "watch did not complete".into());
                        return;
                    }
                }
            }
            _ => {
                // next on a random watcher (only if it would be scheduled: never polled or woken)
                if !watchers.is_empty() {
                    let i = rng.usize_below(watchers.len());
                    ops_log.push(format!("next(w{})", i));
                    step_watcher(&mut watchers[i], &gens, ctx, &ops_log);
                }
            }
        }
    }
    // quiescence: updates have stopped; run every watcher the way an executor would (only when woken)
    for (i, w) in watchers.iter_mut().enumerate() {
        for _ in 0..8 {
            if !step_watcher(w, &gens, ctx, &ops_log) {
                break;
            }
        }
        let g = &gens[w.svc][w.gen];
        let latest = *g.values.last().unwrap();
        if let Some(f) = &w.failed {
            ctx.violation("watch-stream-error", format!("watcher {} failed: {}", i, f));
            continue;
        }
        if w.reported.is_empty() {
            ctx.violation("watch-no-first-item", format!("watcher {} on {:?} never reported the status current at subscription (history: {})", i, SERVICES[w.svc], ops_log.join(" ")));
            continue;
        }
        if *w.reported.last().unwrap() != latest {
            ctx.violation_class(
                if g.cleared { "watch-lost-final-status" } else { "watch-stale" },
                if g.cleared { "cleared" } else { "registered" },
                format!("watcher {} on {:?} last reported {} but the latest status of that registration is {} (reported {:?}, held {:?}; history: {})", i, SERVICES[w.svc], w.reported.last().unwrap(), latest, w.reported, &g.values[w.sub_at..], ops_log.join(" ")),
            );
        }
        if g.cleared && !w.ended {
            ctx.violation("watch-not-ended-by-clear", format!("watcher {} on {:?} is still open although the service was cleared (reported {:?}; history: {})", i, SERVICES[w.svc], w.reported, ops_log.join(" ")));
        }
        if !g.cleared && w.ended {
            ctx.violation("watch-ended-while-registered", format!("watcher {} on {:?} ended although the service is still registered", i, SERVICES[w.svc]));
        }
        if g.cleared && w.ended {
            ctx.count("seq.stream_ended_by_clear");
        }
        if w.reported.len() < g.values.len() - w.sub_at {
            // observed, not required: an implementation may report every intermediate status
            ctx.count("observed.coalesced_updates");
        }
        if g.values.len() - w.sub_at >= 3 {
            ctx.count("seq.several_updates_after_subscription");
        }
        ctx.add("seq.watch_items", w.reported.len() as u64);
    }
    let nw = watchers.len();
    ctx.fingerprint(format!("seq|ops{}|w{}|clr{}", nops / 5, nw.min(4), gens.iter().map(|g| g.iter().filter(|x| x.cleared).count()).sum::<usize>().min(3)), nw > 0);
    ctx.distinct("sequential_histories", &ops_log.join(" "));
    ctx.sample(json!({"history": ops_log.join(" ")}));
}

/// Poll the watcher the way a real executor would: only if it was never polled or has been woken
/// since it last returned Pending.  Returns true if it made progress (an item or the end).
fn step_watcher(w: &mut Watcher, gens: &[Vec<Gen>], ctx: &mut Ctx, ops_log: &[String]) -> bool {
    if w.ended || w.failed.is_some() {
        return false;
    }
    if w.parked && w.ex.wakes() == w.wakes_at_pending {
        return false; // parked: nobody woke it
    }
    w.parked = false;
    let stream = &mut w.stream;
    let mut fut = Box::pin(stream.message());
    let r = w.ex.drive(10_000, |cx| std::future::Future::poll(fut.as_mut(), cx));
    drop(fut);
    match r {
        Out::Done(Ok(Some(resp))) => {
            let v = resp.status;
            let g = &gens[w.svc][w.gen];
            // must be a value this registration held at or after subscription, not earlier than the previous report
            let held = &g.values[w.sub_at..];
            // reported sequence must be a subsequence of `held`
            let mut it = held.iter();
            let mut ok = true;
            for r in w.reported.iter().chain(std::iter::once(&v)) {
                if !it.any(|h| h == r) {
                    ok = false;
                    break;
                }
            }
            if !ok {
                ctx.violation("watch-reported-unset-status", format!("watcher on {:?} reported {} after {:?}; statuses held since subscription: {:?} (history: {})", SERVICES[w.svc], v, w.reported, held, ops_log.join(" ")));
            }
            w.reported.push(v);
            true
        }
        Out::Done(Ok(None)) => {
            w.ended = true;
            true
        }
        Out::Done(Err(e)) => {
            w.failed = Some(format!("{:?}: {}", e.code(), e.message()));
            true
        }
        Out::Stalled => {
            w.parked = true;
            w.wakes_at_pending = w.ex.wakes();
            false
        }
        Out::Budget => {
            w.failed = Some("poll budget exhausted".into());
            false
        }
    }
}

// ------------------------------------------------------------------ concurrent histories

#[derive(Clone, Debug)]
enum COp {
    Set(i32),
    Clear,
    Check(Option<i32>), // observed result
}
#[derive(Clone, Debug)]
struct Rec {
    svc: usize,
    op: COp,
    call: u64,
    ret: u64,
}

/// Wing–Gong style search: is there a linearization of `ops` (one service) consistent with a
/// register that starts at `init`?
fn linearizable(ops: &[Rec], init: Option<i32>, deadline: std::time::Instant) -> Option<bool> {
    fn go(ops: &[Rec], done: &mut Vec<bool>, state: Option<i32>, left: usize, deadline: std::time::Instant) -> Option<bool> {
        if left == 0 {
            return Some(true);
        }
        if std::time::Instant::now() > deadline {
            return None;
        }
        // minimal ops: not done and no other not-done op returned before its call
        let min_ret = ops.iter().enumerate().filter(|(i, _)| !done[*i]).map(|(_, o)| o.ret).min().unwrap();
        for i in 0..ops.len() {
            if done[i] || ops[i].call > min_ret {
                continue;
            }
            let next = match &ops[i].op {
                COp::Set(v) => Some(Some(*v)),
                COp::Clear => Some(None),
                COp::Check(r) => {
                    if *r == state {
                        Some(state)
                    } else {
                        None
                    }
                }
            };
            if let Some(ns) = next {
                done[i] = true;
                match go(ops, done, ns, left - 1, deadline) {
                    Some(true) => return Some(true),
                    None => return None,
                    Some(false) => {}
                }
                done[i] = false;
            }
        }
        Some(false)
    }
    let mut done = vec![false; ops.len()];
    go(ops, &mut done, init, ops.len(), deadline)
}

fn concurrent(rng: &mut Rng, ctx: &mut Ctx) {
    let rt = tokio::runtime::Builder::new_multi_thread().worker_threads(4).enable_all().build().expect("verif-harness-bug: rt");
    let (reporter, server) = tonic_health::server::health_reporter();
    let clock = Arc::new(AtomicU64::new(0));
    let recs: Arc<Mutex<Vec<Rec>>> = Arc::new(Mutex::new(Vec::new()));
    let n_writers = rng.urange(2, 3);
    let n_checkers = rng.urange(2, 3);
    let n_watchers = rng.urange(1, 3);
    let ops_per = rng.urange(2, 4);
    let seed = rng.u64();
    ctx.begin("concurrent", json!({"writers": n_writers, "checkers": n_checkers, "watchers": n_watchers, "ops_per_task": ops_per}));
    // service "a" is watched and never cleared; service "b" is set/cleared/checked
    let watch_reports: Arc<Mutex<Vec<Vec<i32>>>> = Arc::new(Mutex::new(vec![Vec::new(); n_watchers]));
    let sets_on_a: Arc<Mutex<Vec<i32>>> = Arc::new(Mutex::new(Vec::new()));
    let res: Result<i32, String> = rt.block_on(async {
        reporter.set_service_status("a", ServingStatus::NotServing).await;
        let mut hs = Vec::new();
        let mut watcher_hs = Vec::new();
        for wi in 0..n_watchers {
            let mut client = HealthClient::new(Loopback::new(server.clone(), seed ^ wi as u64, 1 << 20));
            let reports = watch_reports.clone();
            let mut st = client.watch(HealthCheckRequest { service: "a".into() }).await.map_err(|e| format!("watch failed {:?}", e.code()))?.into_inner();
            watcher_hs.push(tokio::spawn(async move {
                loop {
                    match st.message().await {
                        Ok(Some(r)) => reports.lock().unwrap()[wi].push(r.status),
                        _ => break,
                    }
                }
            }));
        }
        for t in 0..n_writers {
            let mut rep = reporter.clone();
            let clock = clock.clone();
            let recs = recs.clone();
            let sets_on_a = sets_on_a.clone();
            let mut r = Rng::new(seed ^ (100 + t as u64));
            hs.push(tokio::spawn(async move {
                for _ in 0..ops_per {
                    let svc = if r.bool() { 1 } else { 2 };
                    if r.chance(1, 3) {
                        tokio::task::yield_now().await;
                    }
                    if svc == 2 && r.chance(1, 3) {
                        let call = clock.fetch_add(1, Ordering::SeqCst);
                        rep.clear_service_status("b").await;
                        let ret = clock.fetch_add(1, Ordering::SeqCst);
                        recs.lock().unwrap().push(Rec { svc, op: COp::Clear, call, ret });
                    } else {
                        let st = st_of(r.u64());
                        if svc == 1 {
                            sets_on_a.lock().unwrap().push(wire(st));
                        }
                        let call = clock.fetch_add(1, Ordering::SeqCst);
                        rep.set_service_status(SERVICES[svc], st).await;
                        let ret = clock.fetch_add(1, Ordering::SeqCst);
                        recs.lock().unwrap().push(Rec { svc, op: COp::Set(wire(st)), call, ret });
                    }
                }
            }));
        }
        for t in 0..n_checkers {
            let mut client = HealthClient::new(Loopback::new(server.clone(), seed ^ (200 + t as u64), 1 << 20));
            let clock = clock.clone();
            let recs = recs.clone();
            let mut r = Rng::new(seed ^ (300 + t as u64));
            hs.push(tokio::spawn(async move {
                for _ in 0..ops_per {
                    let svc = if r.bool() { 1 } else { 2 };
                    if r.chance(1, 3) {
                        tokio::task::yield_now().await;
                    }
                    let call = clock.fetch_add(1, Ordering::SeqCst);
                    let res = client.check(HealthCheckRequest { service: SERVICES[svc].into() }).await;
                    let ret = clock.fetch_add(1, Ordering::SeqCst);
                    let obs = match res {
                        Ok(r) => Some(r.get_ref().status),
                        Err(e) if e.code() == tonic::Code::NotFound => None,
                        Err(_) => Some(-1),
                    };
                    recs.lock().unwrap().push(Rec { svc, op: COp::Check(obs), call, ret });
                }
            }));
        }
        for h in hs {
            let _ = h.await;
        }
        // final status of "a" after all writers are done
        let mut client = HealthClient::new(Loopback::new(server.clone(), seed, 1 << 20));
        let fin = client.check(HealthCheckRequest { service: "a".into() }).await.map_err(|e| format!("final check failed {:?}", e.code()))?.get_ref().status;
        // updates have stopped: wait (generous wall-clock watchdog, never a verdict) until every
        // watcher has caught up with the final status
        let t0 = std::time::Instant::now();
        let mut converged = false;
        while t0.elapsed() < std::time::Duration::from_secs(10) {
            if watch_reports.lock().unwrap().iter().all(|r| r.last() == Some(&fin)) {
                converged = true;
                break;
            }
            tokio::time::sleep(std::time::Duration::from_millis(1)).await;
        }
        for h in watcher_hs {
            h.abort();
            let _ = h.await;
        }
        if !converged {
            return Ok(-1000 - fin);
        }
        Ok(fin)
    });
    drop(rt);
    let fin = match res {
        Ok(f) => f,
        Err(e) => {
            ctx.violation("concurrent-setup", e);
            return;
        }
    };
    let watchdog = fin <= -1000;
    let fin = if watchdog { -1000 - fin } else { fin };
    if watchdog {
        // not a verdict (the sequential monitor decides staleness) and not a reason to discard the
        // other histories: counted, and the floors below decide whether enough was observed
        ctx.count("conc.histories_watchdog_expired");
    }
    let recs = recs.lock().unwrap().clone();
    let deadline = std::time::Instant::now() + std::time::Duration::from_secs(2);
    for svc in [1usize, 2] {
        let ops: Vec<Rec> = recs.iter().filter(|r| r.svc == svc).cloned().collect();
        let init = if svc == 1 { Some(2) } else { None };
        match linearizable(&ops, init, deadline) {
            Some(true) => ctx.count("conc.histories_linearizable"),
            Some(false) => {
                let mut o = ops.clone();
                o.sort_by_key(|r| r.call);
                ctx.violation("not-linearizable", format!("no linearization of set/clear/check on {:?}: {:?}", SERVICES[svc], o.iter().map(|r| format!("{:?}@{}-{}", r.op, r.call, r.ret)).collect::<Vec<_>>()));
            }
            None => ctx.count("conc.checker_timeouts"),
        }
    }
    // watch constraints on "a": every report is the initial value or a value some writer set; last = final
    let allowed: Vec<i32> = std::iter::once(2).chain(sets_on_a.lock().unwrap().iter().copied()).collect();
    for (i, rep) in watch_reports.lock().unwrap().iter().enumerate() {
        ctx.add("conc.watch_items", rep.len() as u64);
        if rep.is_empty() {
            ctx.violation("conc-watch-no-item", format!("watcher {} reported nothing", i));
            continue;
        }
        if let Some(bad) = rep.iter().find(|v| !allowed.contains(v)) {
            ctx.violation("conc-watch-unset-status", format!("watcher {} reported {} which was never set for the service", i, bad));
        }
        if !watchdog && *rep.last().unwrap() != fin {
            ctx.violation("conc-watch-stale", format!("after all updates stopped watcher {} last reported {} but the status is {} (reports {:?})", i, rep.last().unwrap(), fin, rep));
        }
    }
    ctx.fingerprint(format!("conc|w{}|c{}|s{}|ops{}|n{}", n_writers, n_checkers, n_watchers, ops_per, recs.len() / 3), true);
    let mut o = recs.clone();
    o.sort_by_key(|r| r.call);
    ctx.distinct("concurrent_histories", &o.iter().map(|r| format!("{:?}@{}-{};", r.op, r.call, r.ret)).collect::<String>());
    ctx.sample(json!({"records": recs.len(), "final_a": fin}));
}

#[allow(dead_code)]
fn _unused(_: HashMap<u8, u8>) {}

// ------------------------------------------------------------------ forced interleavings (current-thread runtime)

/// Burn `k` units of tokio's cooperative budget (128 per task poll) so that the next budgeted
/// operations of this task (the lock acquisitions inside the reporter) yield at a chosen point.
async fn burn_budget(k: usize) {
    let (tx, mut rx) = tokio::sync::mpsc::unbounded_channel::<()>();
    for _ in 0..k {
        let _ = tx.send(());
    }
    for _ in 0..k {
        let _ = rx.recv().await;
    }
}

/// Two first-time registrations of the same service overlap (the first writer is made to yield
/// somewhere inside `set_service_status`), a watcher subscribes in between.
fn race_case(rng: &mut Rng, ctx: &mut Ctx) {
    let k = if rng.chance(3, 4) { rng.urange(120, 130) } else { rng.urange(0, 135) };
    let k2 = rng.urange(0, 3);
    let (x, y) = (wire(st_of(rng.u64())), wire(st_of(rng.u64())));
    let with_clear = rng.chance(1, 4);
    ctx.begin("race", json!({"budget_burned_by_writer_A": k, "A_sets": x, "B_sets": y, "clear_first": with_clear}));
    let rt = tokio::runtime::Builder::new_current_thread().enable_all().start_paused(true).build().expect("verif-harness-bug: rt");
    let (mut reporter, server) = tonic_health::server::health_reporter();
    let seed = rng.u64();
    let out: Result<(Vec<i32>, bool, Option<i32>), String> = rt.block_on(async move {
        if with_clear {
            reporter.set_service_status("r", ServingStatus::Serving).await;
            reporter.clear_service_status("r").await;
        }
        let ra = reporter.clone();
        let rb = reporter.clone();
        let to_status = |w: i32| match w { 0 => ServingStatus::Unknown, 1 => ServingStatus::Serving, _ => ServingStatus::NotServing };
        let a = tokio::spawn(async move {
            burn_budget(k).await;
            ra.set_service_status("r", to_status(x)).await;
        });
        let b = tokio::spawn(async move {
            burn_budget(k2).await;
            rb.set_service_status("r", to_status(y)).await;
        });
        let srv = server.clone();
        let w = tokio::spawn(async move {
            let mut client = HealthClient::new(Loopback::new(srv, seed, 1 << 20));
            // subscribe as soon as the service exists
            let mut tries = 0u32;
            let mut st = loop {
                match client.watch(HealthCheckRequest { service: "r".into() }).await {
                    Ok(r) => break r.into_inner(),
                    Err(_) => tokio::task::yield_now().await,
                }
                tries += 1;
                if tries > 20_000 {
                    // both writers are long done: the service never came into existence
                    return (Vec::new(), false);
                }
            };
            let mut got = Vec::new();
            let mut ended = false;
            loop {
                match tokio::time::timeout(std::time::Duration::from_millis(200), st.message()).await {
                    Ok(Ok(Some(m))) => got.push(m.status),
                    Ok(_) => {
                        ended = true;
                        break;
                    }
                    Err(_) => break, // quiet: the paused clock only advances when every task is idle
                }
            }
            (got, ended)
        });
        let _ = a.await;
        let _ = b.await;
        let mut client = HealthClient::new(Loopback::new(server.clone(), seed, 1 << 20));
        let fin = client.check(HealthCheckRequest { service: "r".into() }).await.ok().map(|r| r.get_ref().status);
        let (got, ended) = w.await.map_err(|e| e.to_string())?;
        Ok((got, ended, fin))
    });
    drop(rt);
    match out {
        Err(e) => ctx.violation("race-setup", e),
        Ok((got, ended, fin)) => {
            ctx.count("race.histories");
            if fin.is_none() {
                ctx.violation("check-not-found-after-set", "the service is NOT_FOUND although two writers set it and nobody cleared it afterwards".into());
            }
            if ended {
                ctx.violation("watch-ended-while-registered", format!("a watch stream ended although the service was never cleared after subscription (reported {:?}, latest status {:?}, writer A yielded after burning {} budget units)", got, fin, k));
            }
            if let Some(bad) = got.iter().find(|v| **v != x && **v != y) {
                ctx.violation("watch-reported-unset-status", format!("reported {} which neither writer set", bad));
            }
            if !ended && got.last().copied() != fin && fin.is_some() {
                ctx.violation("watch-stale", format!("watcher last reported {:?} but the status is {:?} (reports {:?})", got.last(), fin, got));
            }
            ctx.distinct("race_outcomes", &format!("{:?}|{}|{:?}", got, ended, fin));
            ctx.fingerprint(format!("race|k{}|{}", k.min(131) / 4, with_clear as u8), true);
        }
    }
}

#[derive(Clone, Copy, Debug, PartialEq)]
enum ROp {
    Set(i32),
    Clear,
}

/// Sequential model of two reporter operations applied in the given order to a service registered
/// with `s0` and watched since before both: (final Check result, watcher's stream ended, statuses
/// the watched registration held in order).
fn race_model(s0: i32, order: [ROp; 2]) -> (Option<i32>, bool, Vec<i32>) {
    let mut registered = Some(s0);
    let mut alive = true;
    let mut held = vec![s0];
    for op in order {
        match op {
            ROp::Set(v) => {
                if registered.is_some() {
                    if alive {
                        held.push(v);
                    }
                } else {
                    // a fresh registration the old watcher does not belong to
                }
                registered = Some(v);
            }
            ROp::Clear => {
                registered = None;
                alive = false;
            }
        }
    }
    (registered, !alive, held)
}

/// A registered, watched service; two reporter clones run one operation each (set or clear) and
/// the first is made to yield inside the reporter.  The observation must equal one of the two
/// sequential orders.
fn race2_case(rng: &mut Rng, ctx: &mut Ctx) {
    let k = if rng.chance(3, 4) { rng.urange(120, 131) } else { rng.urange(0, 135) };
    let k2 = rng.urange(0, 3);
    let s0 = wire(st_of(rng.u64()));
    let mk = |rng: &mut Rng| if rng.chance(2, 5) { ROp::Clear } else { ROp::Set(wire(st_of(rng.u64()))) };
    let a = mk(rng);
    let b = mk(rng);
    ctx.begin("race2", json!({"budget_burned_by_A": k, "initial": s0, "A": format!("{:?}", a), "B": format!("{:?}", b)}));
    let rt = tokio::runtime::Builder::new_current_thread().enable_all().start_paused(true).build().expect("verif-harness-bug: rt");
    let (reporter, server) = tonic_health::server::health_reporter();
    let seed = rng.u64();
    let to_status = |w: i32| match w {
        0 => ServingStatus::Unknown,
        1 => ServingStatus::Serving,
        _ => ServingStatus::NotServing,
    };
    let out: Result<(Vec<i32>, bool, Option<i32>), String> = rt.block_on(async move {
        reporter.set_service_status("r", to_status(s0)).await;
        let mut client = HealthClient::new(Loopback::new(server.clone(), seed, 1 << 20));
        let mut st = client.watch(HealthCheckRequest { service: "r".into() }).await.map_err(|e| format!("watch on a registered service failed: {}", e))?.into_inner();
        let first = match st.message().await {
            Ok(Some(m)) => m.status,
            other => return Err(format!("no first item: {:?}", other.map(|o| o.map(|m| m.status)))),
        };
        let mut got = vec![first];
        let run = |mut r: tonic_health::server::HealthReporter, burn: usize, op: ROp| async move {
            burn_budget(burn).await;
            match op {
                ROp::Set(v) => r.set_service_status("r", to_status(v)).await,
                ROp::Clear => r.clear_service_status("r").await,
            }
        };
        let ta = tokio::spawn(run(reporter.clone(), k, a));
        let tb = tokio::spawn(run(reporter.clone(), k2, b));
        let _ = ta.await;
        let _ = tb.await;
        let mut ended = false;
        loop {
            match tokio::time::timeout(std::time::Duration::from_millis(200), st.message()).await {
                Ok(Ok(Some(m))) => got.push(m.status),
                Ok(_) => {
                    ended = true;
                    break;
                }
                Err(_) => break,
            }
        }
        let fin = client.check(HealthCheckRequest { service: "r".into() }).await.ok().map(|r| r.get_ref().status);
        Ok((got, ended, fin))
    });
    drop(rt);
    match out {
        Err(e) => ctx.violation("race2-setup", e),
        Ok((got, ended, fin)) => {
            ctx.count("race2.histories");
            let mut matched = None;
            for (name, order) in [("A;B", [a, b]), ("B;A", [b, a])] {
                let (mfin, mended, held) = race_model(s0, order);
                // reports are a subsequence of what the watched registration held, ending on its last status
                let mut j = 0;
                let sub = got.iter().all(|g| {
                    while j < held.len() && held[j] != *g {
                        j += 1;
                    }
                    if j < held.len() {
                        // stay on j: consecutive equal statuses may be reported once or twice
                        true
                    } else {
                        false
                    }
                });
                if mfin == fin && mended == ended && sub && got.last() == held.last() {
                    matched = Some(name);
                    break;
                }
            }
            match matched {
                Some(name) => {
                    ctx.distinct("race2_orders", name);
                    ctx.count(if a == ROp::Clear || b == ROp::Clear { "race2.with_clear" } else { "race2.sets_only" });
                }
                None => ctx.violation(
                    "not-sequentially-explainable",
                    format!("initial {}, A = {:?} (yielding after {} budget units), B = {:?}: watcher reported {:?}, stream ended: {}, Check afterwards: {:?}; neither A;B {:?} nor B;A {:?} explains this", s0, a, k, b, got, ended, fin, race_model(s0, [a, b]), race_model(s0, [b, a])),
                ),
            }
            ctx.fingerprint(format!("race2|{:?}|{:?}|k{}", matches!(a, ROp::Clear), matches!(b, ROp::Clear), k.min(131) / 4), true);
        }
    }
}


/// A registered service; a Watch call is made to yield inside its handler (budget burnt before the
/// call) while a writer sets a new status.  Whatever the order, the watcher must end up reporting
/// the status that Check returns afterwards.
fn race3_case(rng: &mut Rng, ctx: &mut Ctx) {
    let kw = rng.urange(108, 132);
    let kb = rng.urange(0, 3);
    let s0 = wire(st_of(rng.u64()));
    let y = wire(st_of(rng.u64()));
    ctx.begin("race3", json!({"budget_burned_before_watch": kw, "initial": s0, "writer_sets": y}));
    let rt = tokio::runtime::Builder::new_current_thread().enable_all().start_paused(true).build().expect("verif-harness-bug: rt");
    let (reporter, server) = tonic_health::server::health_reporter();
    let seed = rng.u64();
    let to_status = |w: i32| match w {
        0 => ServingStatus::Unknown,
        1 => ServingStatus::Serving,
        _ => ServingStatus::NotServing,
    };
    let out: Result<(Vec<i32>, bool, Option<i32>), String> = rt.block_on(async move {
        reporter.set_service_status("r", to_status(s0)).await;
        let srv = server.clone();
        let w = tokio::spawn(async move {
            let mut client = HealthClient::new(Loopback::new(srv, seed, 1 << 20));
            burn_budget(kw).await;
            let mut st = match client.watch(HealthCheckRequest { service: "r".into() }).await {
                Ok(r) => r.into_inner(),
                Err(e) => return Err(format!("watch on a registered service failed: {}", e)),
            };
            let mut got = Vec::new();
            let mut ended = false;
            loop {
                match tokio::time::timeout(std::time::Duration::from_millis(200), st.message()).await {
                    Ok(Ok(Some(m))) => got.push(m.status),
                    Ok(_) => {
                        ended = true;
                        break;
                    }
                    Err(_) => break,
                }
            }
            Ok((got, ended))
        });
        let rb = reporter.clone();
        let b = tokio::spawn(async move {
            burn_budget(kb).await;
            rb.set_service_status("r", to_status(y)).await;
        });
        let _ = b.await;
        let (got, ended) = w.await.map_err(|e| e.to_string())??;
        let mut client = HealthClient::new(Loopback::new(server.clone(), seed, 1 << 20));
        let fin = client.check(HealthCheckRequest { service: "r".into() }).await.ok().map(|r| r.get_ref().status);
        Ok((got, ended, fin))
    });
    drop(rt);
    match out {
        Err(e) => ctx.violation("race3-setup", e),
        Ok((got, ended, fin)) => {
            ctx.count("race3.histories");
            if fin != Some(y) {
                ctx.violation("check-stale", format!("Check returned {:?} after set({})", fin, y));
            }
            if ended {
                ctx.violation("watch-ended-while-registered", format!("the stream ended although nobody cleared the service (reports {:?})", got));
            }
            if let Some(bad) = got.iter().find(|v| **v != s0 && **v != y) {
                ctx.violation("watch-reported-unset-status", format!("reported {} which was never set (initial {}, set {})", bad, s0, y));
            }
            if !ended && got.last().copied() != Some(y) {
                ctx.violation("watch-stale", format!("a Watch call overlapping set({}) reported {:?} and then went quiet while the status is {:?} (budget burnt before the call: {})", y, got, fin, kw));
            }
            ctx.distinct("race3_outcomes", &format!("{:?}", got));
            ctx.fingerprint(format!("race3|k{}", kw), true);
        }
    }
}

/// A fresh reporter knows the empty name (SERVING) and nothing else: names nobody ever set - the
/// health service's own, other well-known services, odd spellings - are NOT_FOUND for Check and Watch.
fn fresh_case(rng: &mut Rng, ctx: &mut Ctx, i: u64) {
    const NAMES: &[&str] = &["grpc.health.v1.Health", "grpc.reflection.v1.ServerReflection", "grpc.reflection.v1alpha.ServerReflection", "health", "Health", "/", " ", "*", "grpc.health.v1.Health/Check", "a", "verif.v1.Verif"];
    let name = NAMES[(i as usize) % NAMES.len()];
    ctx.begin("fresh", json!({"name": name}));
    let (_reporter, server) = tonic_health::server::health_reporter();
    let mut client = HealthClient::new(Loopback::new(server, rng.u64(), 1 << 20));
    let mut ex = Exec::new();
    match ex.block_on(10_000, client.check(HealthCheckRequest { service: name.into() })) {
        Out::Done(Err(e)) if e.code() == tonic::Code::NotFound => {}
        Out::Done(Ok(r)) => ctx.violation("check-found-unregistered", format!("check({:?}) on a fresh reporter returned {} although that name was never set", name, r.get_ref().status)),
        Out::Done(Err(e)) => ctx.violation("check-wrong-code", format!("check({:?}) on a fresh reporter failed with {:?}", name, e.code())),
        _ => ctx.violation("check-hang", "check did not complete".into()),
    }
    match ex.block_on(10_000, client.watch(HealthCheckRequest { service: name.into() })) {
        Out::Done(Err(e)) if e.code() == tonic::Code::NotFound => {}
        Out::Done(Ok(resp)) => {
            let mut st = resp.into_inner();
            match ex.block_on(10_000, st.message()) {
                Out::Done(Err(e)) if e.code() == tonic::Code::NotFound => {}
                Out::Done(Ok(Some(m))) => ctx.violation("watch-found-unregistered", format!("watch({:?}) on a fresh reporter reported {} although that name was never set", name, m.status)),
                other => ctx.violation("watch-found-unregistered", format!("watch({:?}) on a fresh reporter: {:?}", name, match other { Out::Done(x) => format!("{:?}", x.map(|o| o.map(|m| m.status)).map_err(|e| e.code())), Out::Stalled => "pending".into(), Out::Budget => "busy".into() })),
            }
        }
        Out::Done(Err(e)) => ctx.violation("watch-wrong-code", format!("{:?}", e.code())),
        _ => ctx.violation("watch-hang", "watch did not complete".into()),
    }
    // and the empty name is SERVING
    match ex.block_on(10_000, client.check(HealthCheckRequest { service: String::new() })) {
        Out::Done(Ok(r)) if r.get_ref().status == 1 => {}
        other => ctx.violation("default-not-serving", format!("check(\"\") on a fresh reporter: {:?}", match other { Out::Done(x) => format!("{:?}", x.map(|r| r.get_ref().status).map_err(|e| e.code())), _ => "did not complete".into() })),
    }
    ctx.count("fresh.names");
    ctx.fingerprint(format!("fresh|{}", name), true);
}
