//! C20 — rich error details round-trip through a status.
use crate::ctx::*;
use crate::gen::*;
use crate::prng::Rng;
use crate::refc::*;
use serde_json::json;
use std::collections::HashMap;
use std::time::Duration;
use tonic::{Code, Status};
use tonic_types::*;

fn s(rng: &mut Rng) -> String {
    match rng.below(24) {
        0..=4 => String::new(),
        // "arbitrary strings": also long ones (beyond any documented recommendation for a field)
        5 => {
            let n = *rng.pick(&[63usize, 64, 65, 66, 127, 128, 129, 255, 256, 300, 1000]);
            (0..n).map(|i| (b'a' + ((i as u8).wrapping_add(rng.below(26) as u8)) % 26) as char).collect()
        }
        6 => (0..rng.urange(33, 90)).map(|_| *rng.pick(&['é', 'ß', 'я', '中'])).collect(),
        _ => rng.unicode(12),
    }
}

fn gen_delay(rng: &mut Rng) -> Option<Duration> {
    let max = RetryInfo::MAX_RETRY_DELAY;
    match rng.below(8) {
        0 => None,
        1 => Some(Duration::ZERO),
        2 => Some(Duration::new(0, 1)),
        3 => Some(max),
        4 => Some(max - Duration::new(0, 1)),
        // beyond i64 nanoseconds (~292 years) but inside the protobuf range (~10000 years)
        5 => Some(Duration::new(9_223_372_037 + rng.below(300_000_000_000), rng.below(1_000_000_000) as u32)),
        6 => Some(Duration::new(rng.below(1000), rng.below(1_000_000_000) as u32)),
        _ => Some(Duration::new(rng.below(315_576_000_000), rng.below(1_000_000_000) as u32)),
    }
}

fn gen_detail(rng: &mut Rng, kind: u64) -> ErrorDetail {
    match kind {
        0 => RetryInfo::new(gen_delay(rng)).into(),
        // now and then a realistic big one (a deep stack trace): several KiB of details
        1 if rng.chance(1, 12) => DebugInfo::new((0..rng.urange(60, 120)).map(|i| format!("frame {:03}: tonic_types::richer_error::some::deeply::nested::module::function_{} at src/lib.rs:{}", i, i, 100 + i)).collect::<Vec<_>>(), s(rng)).into(),
        1 => DebugInfo::new((0..rng.below(4)).map(|_| s(rng)).collect::<Vec<_>>(), s(rng)).into(),
        2 => QuotaFailure::new((0..rng.below(5)).map(|_| QuotaViolation::new(s(rng), s(rng))).collect::<Vec<_>>()).into(),
        3 => {
            let mut md = HashMap::new();
            for _ in 0..rng.below(4) {
                md.insert(s(rng), s(rng));
            }
            ErrorInfo::new(s(rng), s(rng), md).into()
        }
        4 => PreconditionFailure::new((0..rng.below(5)).map(|_| PreconditionViolation::new(s(rng), s(rng), s(rng))).collect::<Vec<_>>()).into(),
        5 if rng.chance(1, 12) => BadRequest::new((0..rng.urange(100, 160)).map(|i| FieldViolation::new(format!("request.items[{}].quantity", i), "must be a positive number not larger than the stock on hand")).collect::<Vec<_>>()).into(),
        5 => BadRequest::new((0..rng.below(5)).map(|_| FieldViolation::new(s(rng), s(rng))).collect::<Vec<_>>()).into(),
        6 => RequestInfo::new(s(rng), s(rng)).into(),
        7 => ResourceInfo::new(s(rng), s(rng), s(rng), s(rng)).into(),
        8 => Help::new((0..rng.below(5)).map(|_| HelpLink::new(s(rng), s(rng))).collect::<Vec<_>>()).into(),
        _ => LocalizedMessage::new(s(rng), s(rng)).into(),
    }
}

/// Field-wise canonical text of a detail (the types have no PartialEq).
fn repr(d: &ErrorDetail) -> String {
    match d {
        ErrorDetail::RetryInfo(x) => format!("RetryInfo({:?})", x.retry_delay),
        ErrorDetail::DebugInfo(x) => format!("DebugInfo({:?},{:?})", x.stack_entries, x.detail),
        ErrorDetail::QuotaFailure(x) => format!("QuotaFailure({:?})", x.violations.iter().map(|v| (&v.subject, &v.description)).collect::<Vec<_>>()),
        ErrorDetail::ErrorInfo(x) => {
            let mut md: Vec<(&String, &String)> = x.metadata.iter().collect();
            md.sort();
            format!("ErrorInfo({:?},{:?},{:?})", x.reason, x.domain, md)
        }
        ErrorDetail::PreconditionFailure(x) => format!("PreconditionFailure({:?})", x.violations.iter().map(|v| (&v.r#type, &v.subject, &v.description)).collect::<Vec<_>>()),
        ErrorDetail::BadRequest(x) => format!("BadRequest({:?})", x.field_violations.iter().map(|v| (&v.field, &v.description)).collect::<Vec<_>>()),
        ErrorDetail::RequestInfo(x) => format!("RequestInfo({:?},{:?})", x.request_id, x.serving_data),
        ErrorDetail::ResourceInfo(x) => format!("ResourceInfo({:?},{:?},{:?},{:?})", x.resource_type, x.resource_name, x.owner, x.description),
        ErrorDetail::Help(x) => format!("Help({:?})", x.links.iter().map(|l| (&l.description, &l.url)).collect::<Vec<_>>()),
        ErrorDetail::LocalizedMessage(x) => format!("LocalizedMessage({:?},{:?})", x.locale, x.message),
        _ => "unknown".into(),
    }
}

fn kind_of(d: &ErrorDetail) -> usize {
    match d {
        ErrorDetail::RetryInfo(_) => 0,
        ErrorDetail::DebugInfo(_) => 1,
        ErrorDetail::QuotaFailure(_) => 2,
        ErrorDetail::ErrorInfo(_) => 3,
        ErrorDetail::PreconditionFailure(_) => 4,
        ErrorDetail::BadRequest(_) => 5,
        ErrorDetail::RequestInfo(_) => 6,
        ErrorDetail::ResourceInfo(_) => 7,
        ErrorDetail::Help(_) => 8,
        ErrorDetail::LocalizedMessage(_) => 9,
        _ => 10,
    }
}

/// Through the header encoding (the C04 path) and back.
fn through_headers(st: Status) -> Option<Status> {
    let resp: http::Response<()> = st.into_http();
    Status::from_header_map(resp.headers())
}

fn embedded_status(details: &[u8]) -> Option<(i64, String, usize)> {
    let f = pb_parse(details)?;
    let mut code = 0i64;
    let mut msg = String::new();
    let mut n = 0;
    for (k, v) in f {
        match (k, v) {
            (1, PbVal::Varint(c)) => code = c as i64,
            (2, PbVal::Bytes(b)) => msg = String::from_utf8(b).ok()?,
            (3, PbVal::Bytes(_)) => n += 1,
            _ => {}
        }
    }
    Some((code, msg, n))
}

pub fn run(cfg: &RunCfg) -> Ctx {
    let mut all = Ctx::new();
    all.merge(par_cases(cfg, "vec", cfg.n(16_000, 16 * 600_000), || (), |_, rng, ctx, _| vec_case(rng, ctx)));
    all.merge(par_cases(cfg, "set", cfg.n(16_000, 16 * 600_000), || (), |_, rng, ctx, i| set_case(rng, ctx, i)));
    all.merge(par_cases(cfg, "garbage", cfg.n(16_000, 16 * 600_000), || (), |_, rng, ctx, _| garbage_case(rng, ctx)));
    for k in 0..10 {
        all.floor(&format!("kind.{}", k), 10);
    }
    all.floor("vec.empty", 3);
    all.floor("vec.forwarded_details_key", 5);
    all.floor("vec.repeated_kind", 10);
    all.floor("set.empty", 1);
    all.floor("retry.beyond_i64_nanos", 5);
    all.floor("garbage.decode_errors", 20);
    all
}

fn check_embedded(ctx: &mut Ctx, st: &Status, code: Code, message: &str, n_details: usize) {
    match embedded_status(st.details()) {
        None => ctx.violation("embedded-status-unparseable", "details are not a parseable google.rpc.Status".into()),
        Some((c, m, n)) => {
            if c != code as i64 || m != message {
                ctx.violation("embedded-status-differs", format!("embedded google.rpc.Status has code {} message {:?}; outer status has code {} message {:?}", c, m, code as i32, message));
            }
            if n != n_details {
                ctx.violation("embedded-details-count", format!("embedded status lists {} details, {} were attached", n, n_details));
            }
        }
    }
}

fn vec_case(rng: &mut Rng, ctx: &mut Ctx) {
    let n = match rng.below(6) {
        0 => 0,
        1 => 1,
        _ => rng.urange(2, 12),
    };
    let details: Vec<ErrorDetail> = (0..n).map(|_| gen_detail(rng, rng.clone().below(10))).collect();
    // any code, OK included: details attached to a status travel with it whatever its code
    let code = *rng.pick(&ALL_CODES[..]);
    let message = if rng.chance(1, 5) { String::new() } else { rng.unicode(20) };
    let want: Vec<String> = details.iter().map(repr).collect();
    let case_json = json!({"code": code as i32, "message": message, "details": want});
    ctx.begin("vec", case_json.clone());
    for d in &details {
        ctx.count(&format!("kind.{}", kind_of(d)));
        if let ErrorDetail::RetryInfo(r) = d {
            if matches!(r.retry_delay, Some(x) if x.as_nanos() > i64::MAX as u128) {
                ctx.count("retry.beyond_i64_nanos");
            }
        }
    }
    if n == 0 {
        ctx.count("vec.empty");
    }
    let mut kinds: Vec<usize> = details.iter().map(kind_of).collect();
    kinds.sort();
    if kinds.windows(2).any(|w| w[0] == w[1]) {
        ctx.count("vec.repeated_kind");
    }
    let with_md = rng.bool();
    let meta = gen_meta(rng, 3, false);
    // metadata copied over from an upstream response (a gateway) may itself carry a
    // `grpc-status-details-bin` entry: the details of *this* status are still the ones attached
    // (only when there is something attached: a status without details writes no entry of its own,
    // and then the forwarded entry is simply what the caller chose to send)
    let mut meta_sent = meta.clone();
    if with_md && n >= 1 && rng.chance(1, 4) {
        let upstream = Status::with_error_details_vec(Code::Aborted, "upstream", vec![gen_detail(rng, 3)]);
        meta_sent.push(("grpc-status-details-bin".to_string(), crate::gen::MVal::Bin(upstream.details().to_vec())));
        ctx.count("vec.forwarded_details_key");
    }
    let st = if with_md {
        Status::with_error_details_vec_and_metadata(code, message.clone(), details.clone(), build_meta(&meta_sent))
    } else {
        Status::with_error_details_vec(code, message.clone(), details.clone())
    };
    let Some(back) = through_headers(st) else {
        ctx.violation("status-lost", "no status after the header encoding".into());
        return;
    };
    if back.code() != code || back.message() != message {
        ctx.violation("outer-status-differs", format!("{:?}/{:?} -> {:?}/{:?}", code, message, back.code(), back.message()));
    }
    match back.check_error_details_vec() {
        Err(e) => ctx.violation("check-vec-failed", format!("check_error_details_vec failed: {}", e)),
        Ok(got) => {
            let got_r: Vec<String> = got.iter().map(repr).collect();
            if got_r != want {
                let i = got_r.iter().zip(&want).position(|(a, b)| a != b).unwrap_or(got_r.len().min(want.len()));
                ctx.violation_class("vec-differs", &format!("kind{}", want.get(i).and_then(|w| w.split('(').next().map(|x| x.to_string())).unwrap_or("len".into())), format!("detail {}: got {:?}, attached {:?} (lengths {} / {})", i, got_r.get(i), want.get(i), got_r.len(), want.len()));
            }
        }
    }
    if back.get_error_details_vec().iter().map(repr).collect::<Vec<_>>() != want {
        ctx.violation("get-vec-differs", "get_error_details_vec differs from what was attached".into());
    }
    check_embedded(ctx, &back, code, &message, n);
    if with_md {
        match meta_multimap(back.metadata()) {
            Ok(mm) => {
                let mut mm = mm;
                mm.remove("content-type");
                if mm != spec_multimap(&meta) {
                    ctx.violation("metadata-differs", "status metadata differs".into());
                }
            }
            Err(e) => ctx.violation("metadata-differs", e),
        }
    }
    // per-kind getters return the first of that kind
    let first = |k: usize| details.iter().find(|d| kind_of(d) == k).map(repr);
    let g: [(usize, Option<String>); 10] = [
        (0, back.get_details_retry_info().map(|x| repr(&x.into()))),
        (1, back.get_details_debug_info().map(|x| repr(&x.into()))),
        (2, back.get_details_quota_failure().map(|x| repr(&x.into()))),
        (3, back.get_details_error_info().map(|x| repr(&x.into()))),
        (4, back.get_details_precondition_failure().map(|x| repr(&x.into()))),
        (5, back.get_details_bad_request().map(|x| repr(&x.into()))),
        (6, back.get_details_request_info().map(|x| repr(&x.into()))),
        (7, back.get_details_resource_info().map(|x| repr(&x.into()))),
        (8, back.get_details_help().map(|x| repr(&x.into()))),
        (9, back.get_details_localized_message().map(|x| repr(&x.into()))),
    ];
    for (k, got) in g {
        if got != first(k) {
            ctx.violation_class("kind-getter-differs", &format!("kind{}", k), format!("getter of kind {} returned {:?}, first attached of that kind is {:?}", k, got, first(k)));
        }
    }
    ctx.fingerprint(format!("vec|n{}|kinds{:?}|md{}", n.min(4), { kinds.dedup(); kinds.len() }, with_md as u8), n >= 1);
    ctx.sample(case_json);
}

fn set_case(rng: &mut Rng, ctx: &mut Ctx, idx: u64) {
    // every subset of the 10 kinds is reachable: low 10 bits of the index walk them systematically
    let mask = if idx < 1024 { idx } else { rng.below(1024) };
    let mut ed = ErrorDetails::new();
    let mut want: Vec<Option<String>> = vec![None; 10];
    for k in 0..10u64 {
        if mask >> k & 1 == 1 {
            let d = gen_detail(rng, k);
            want[k as usize] = Some(repr(&d));
            match d {
                ErrorDetail::RetryInfo(x) => { ed.set_retry_info(x.retry_delay); }
                ErrorDetail::DebugInfo(x) => { ed.set_debug_info(x.stack_entries, x.detail); }
                ErrorDetail::QuotaFailure(x) => { ed.set_quota_failure(x.violations); }
                ErrorDetail::ErrorInfo(x) => { ed.set_error_info(x.reason, x.domain, x.metadata); }
                ErrorDetail::PreconditionFailure(x) => { ed.set_precondition_failure(x.violations); }
                ErrorDetail::BadRequest(x) => { ed.set_bad_request(x.field_violations); }
                ErrorDetail::RequestInfo(x) => { ed.set_request_info(x.request_id, x.serving_data); }
                ErrorDetail::ResourceInfo(x) => { ed.set_resource_info(x.resource_type, x.resource_name, x.owner, x.description); }
                ErrorDetail::Help(x) => { ed.set_help(x.links); }
                ErrorDetail::LocalizedMessage(x) => { ed.set_localized_message(x.locale, x.message); }
                _ => {}
            }
            ctx.count(&format!("kind.{}", k));
        }
    }
    if mask == 0 {
        ctx.count("set.empty");
    }
    // any code, OK included: details attached to a status travel with it whatever its code
    let code = *rng.pick(&ALL_CODES[..]);
    let message = if rng.chance(1, 5) { String::new() } else { rng.unicode(20) };
    let case_json = json!({"code": code as i32, "message": message, "kinds_mask": mask, "details": want});
    ctx.begin("set", case_json.clone());
    let st = Status::with_error_details(code, message.clone(), ed);
    let Some(back) = through_headers(st) else {
        ctx.violation("status-lost", "no status after the header encoding".into());
        return;
    };
    match back.check_error_details() {
        Err(e) => ctx.violation("check-set-failed", format!("check_error_details failed: {}", e)),
        Ok(got) => {
            let g: Vec<Option<String>> = vec![
                got.retry_info().cloned().map(|x| repr(&x.into())),
                got.debug_info().cloned().map(|x| repr(&x.into())),
                got.quota_failure().cloned().map(|x| repr(&x.into())),
                got.error_info().cloned().map(|x| repr(&x.into())),
                got.precondition_failure().cloned().map(|x| repr(&x.into())),
                got.bad_request().cloned().map(|x| repr(&x.into())),
                got.request_info().cloned().map(|x| repr(&x.into())),
                got.resource_info().cloned().map(|x| repr(&x.into())),
                got.help().cloned().map(|x| repr(&x.into())),
                got.localized_message().cloned().map(|x| repr(&x.into())),
            ];
            for k in 0..10 {
                if g[k] != want[k] {
                    ctx.violation_class("set-differs", &format!("kind{}", k), format!("kind {}: got {:?}, attached {:?}", k, g[k], want[k]));
                }
            }
        }
    }
    check_embedded(ctx, &back, code, &message, mask.count_ones() as usize);
    ctx.fingerprint(format!("set|{:010b}", mask), mask != 0);
    ctx.sample(case_json);
}

fn garbage_case(rng: &mut Rng, ctx: &mut Ctx) {
    // arbitrary bytes, truncated valid encodings, Any with a known type URL and a garbage value
    let kind = rng.below(4);
    let bytes: Vec<u8> = match kind {
        0 => rng.bytes_range(0, 60),
        1 => {
            let d: Vec<ErrorDetail> = (0..rng.urange(1, 4)).map(|_| gen_detail(rng, rng.clone().below(10))).collect();
            let st = Status::with_error_details_vec(Code::Internal, "m", d);
            let full = st.details().to_vec();
            let at = rng.usize_below(full.len().max(1));
            full[..at].to_vec()
        }
        2 => {
            // google.rpc.Status { details: [Any{type_url: known, value: garbage}] }
            let url = *rng.pick(&[RetryInfo::TYPE_URL, BadRequest::TYPE_URL, ErrorInfo::TYPE_URL, Help::TYPE_URL, DebugInfo::TYPE_URL, "type.googleapis.com/unknown.Type",
                "", "/", "google.rpc.RetryInfo", "\u{e9}t\u{e9}", "x/google.rpc.BadRequest", "type.googleapis.com/", "//"]);
            let garbage = rng.bytes_range(0, 30);
            let mut any = vec![0x0a];
            put_varint(&mut any, url.len() as u64);
            any.extend_from_slice(url.as_bytes());
            any.push(0x12);
            put_varint(&mut any, garbage.len() as u64);
            any.extend_from_slice(&garbage);
            let mut st = vec![0x08, 3, 0x1a];
            put_varint(&mut st, any.len() as u64);
            st.extend(any);
            st
        }
        _ => {
            let d: Vec<ErrorDetail> = (0..rng.urange(1, 3)).map(|_| gen_detail(rng, rng.clone().below(10))).collect();
            let st = Status::with_error_details_vec(Code::Internal, "m", d);
            let mut full = st.details().to_vec();
            if !full.is_empty() {
                let i = rng.usize_below(full.len());
                full[i] ^= 1 << rng.below(8);
            }
            full
        }
    };
    ctx.begin(&format!("garbage{}", kind), json!({"kind": kind, "details_hex": short(&bytes)}));
    let st = Status::with_details(Code::Internal, "garbage", bytes.clone().into());
    let st = match through_headers(st) {
        Some(s) => s,
        None => return,
    };
    // none of these may panic (caught by the case runner); errors are fine
    let a = st.check_error_details();
    let b = st.check_error_details_vec();
    if a.is_err() || b.is_err() {
        ctx.count("garbage.decode_errors");
    }
    let _ = st.get_error_details();
    let v = st.get_error_details_vec();
    if b.is_err() && !v.is_empty() {
        ctx.violation("get-vec-nonempty-on-error", "get_error_details_vec returned details although decoding fails".into());
    }
    let _ = (st.get_details_retry_info(), st.get_details_debug_info(), st.get_details_quota_failure(), st.get_details_error_info(), st.get_details_precondition_failure());
    let _ = (st.get_details_bad_request(), st.get_details_request_info(), st.get_details_resource_info(), st.get_details_help(), st.get_details_localized_message());
    ctx.fingerprint(format!("garbage|{}|{}|{}", kind, a.is_ok() as u8, b.is_ok() as u8), true);
}
