//! C16 — grpc-web server layer translates requests and responses losslessly.
use crate::codec_drv::drain_body;
use crate::ctx::*;
use crate::exec::{Exec, Out};
use crate::prng::Rng;
use crate::props::c17::gen_trailers;
use crate::refc::*;
use crate::script::*;
use bytes::Bytes;
use http::{HeaderMap, HeaderValue, Method, Version};
use http_body::Body;
use serde_json::json;
use std::sync::{Arc, Mutex};
use std::task::{Context, Poll};
use tonic_web::GrpcWebLayer;
use tower_layer::Layer;
use tower_service::Service;

#[derive(Clone, Default)]
struct Seen {
    calls: usize,
    parts: Option<http::request::Parts>,
    body: Vec<u8>,
    body_err: Option<String>,
}

/// Inner gRPC service: drains the request body it is given, answers with a scripted body.
#[derive(Clone)]
struct Inner {
    seen: Arc<Mutex<Seen>>,
    steps: Arc<Mutex<Option<Vec<BStep>>>>,
    status: u16,
    /// content-type the inner gRPC service answers with
    ctype: &'static str,
}

impl Service<http::Request<tonic::body::Body>> for Inner {
    type Response = http::Response<ScriptBody>;
    type Error = std::convert::Infallible;
    type Future = std::pin::Pin<Box<dyn std::future::Future<Output = Result<Self::Response, Self::Error>> + Send>>;
    fn poll_ready(&mut self, _: &mut Context<'_>) -> Poll<Result<(), Self::Error>> {
        Poll::Ready(Ok(()))
    }
    fn call(&mut self, req: http::Request<tonic::body::Body>) -> Self::Future {
        let seen = self.seen.clone();
        let steps = self.steps.lock().unwrap().take().unwrap_or_default();
        let status = self.status;
        let ctype = self.ctype;
        Box::pin(async move {
            let (parts, body) = req.into_parts();
            let mut body = Box::pin(body);
            let mut data = Vec::new();
            let mut err = None;
            loop {
                match std::future::poll_fn(|cx| body.as_mut().poll_frame(cx)).await {
                    Some(Ok(f)) => {
                        if let Ok(d) = f.into_data() {
                            data.extend_from_slice(&d);
                        }
                    }
                    Some(Err(e)) => {
                        err = Some(format!("{:?}: {}", e.code(), e.message()));
                        break;
                    }
                    None => break,
                }
            }
            {
                let mut s = seen.lock().unwrap();
                s.calls += 1;
                s.parts = Some(parts);
                s.body = data;
                s.body_err = err;
            }
            let (sb, _) = ScriptBody::new(steps);
            let mut resp = http::Response::new(sb);
            *resp.status_mut() = http::StatusCode::from_u16(status).unwrap();
            resp.headers_mut().insert("content-type", HeaderValue::from_static(ctype));
            resp.headers_mut().insert("x-inner", HeaderValue::from_static("1"));
            Ok(resp)
        })
    }
}

pub fn run(cfg: &RunCfg) -> Ctx {
    let mut all = Ctx::new();
    all.merge(par_cases(cfg, "response", cfg.n(16_000, 16 * 600_000), || (), |_, rng, ctx, _| response_case(rng, ctx)));
    all.merge(par_cases(cfg, "request", cfg.n(16_000, 16 * 600_000), || (), |_, rng, ctx, _| request_case(rng, ctx)));
    all.merge(seq_cases(cfg, "matrix", 7 * 3 * 10, |_, ctx, i| matrix_case(ctx, i)));
    for k in ["resp.text", "resp.binary", "resp.frame_split_across_chunks", "resp.trailers_with_colon", "resp.empty_trailers_block", "resp.inner_content_type_with_suffix", "req.text", "req.binary", "req.text.cut_mod4.1", "req.text.cut_mod4.2", "req.text.cut_mod4.3", "req.cut_inside_prefix", "matrix.405", "matrix.400", "matrix.passthrough", "matrix.grpcweb"] {
        all.floor(k, 5);
    }
    all
}

/// Independent grpc-web *response* decoder: text = base64 quanta (padding tolerated at chunk
/// ends, as each chunk is encoded separately), then frames; returns (message bytes, trailer pairs).
fn decode_web_response(chunks: &[Vec<u8>], text: bool) -> Result<(Vec<u8>, Vec<Vec<(String, Vec<u8>)>>, usize), String> {
    let mut raw = Vec::new();
    if text {
        // each chunk the layer emits is a self-contained base64 string
        let mut pending: Vec<u8> = Vec::new();
        for c in chunks {
            pending.extend_from_slice(c);
            // decode complete padded quanta greedily
            while pending.len() >= 4 {
                let q: Vec<u8> = pending.drain(..4).collect();
                let d = b64_decode(&q).ok_or_else(|| format!("bad base64 quantum {:?}", String::from_utf8_lossy(&q)))?;
                raw.extend(d);
            }
        }
        if !pending.is_empty() {
            return Err(format!("{} base64 characters left over", pending.len()));
        }
    } else {
        for c in chunks {
            raw.extend_from_slice(c);
        }
    }
    let (frames, tail) = ref_parse(&raw);
    if tail != Tail::Clean {
        return Err(format!("web body is not a sequence of frames: {:?}", tail));
    }
    let mut msgs = Vec::new();
    let mut trailers = Vec::new();
    let mut after_trailers = 0;
    for f in frames {
        if f.flag & 0x80 != 0 {
            if f.flag != 0x80 {
                return Err(format!("trailers frame flag {:#x}", f.flag));
            }
            trailers.push(web_parse_trailers(&f.payload).ok_or("unparseable trailers block")?);
        } else {
            if !trailers.is_empty() {
                after_trailers += 1;
            }
            msgs.extend(ref_frame(f.flag, &f.payload));
        }
    }
    Ok((msgs, trailers, after_trailers))
}

fn response_case(rng: &mut Rng, ctx: &mut Ctx) {
    let n = rng.urange(0, 4);
    let frames: Vec<(u8, Vec<u8>)> = (0..n).map(|_| (rng.chance(1, 4) as u8, rng.payload_of(if small() { &[0usize, 1, 2, 3, 5, 30] } else { &[0usize, 1, 2, 3, 5, 100, 3000] }))).collect();
    // "any trailers": also an empty block, or one without a grpc-status
    let trailers = match rng.below(14) {
        0 => Vec::new(),
        1 => gen_trailers(rng).into_iter().filter(|(k, _)| k != "grpc-status").collect(),
        _ => gen_trailers(rng),
    };
    if trailers.is_empty() {
        ctx.count("resp.empty_trailers_block");
    }
    let mut grpc = Vec::new();
    let mut starts = Vec::new();
    for (f, p) in &frames {
        starts.push(grpc.len());
        grpc.extend(ref_frame(*f, p));
    }
    let style = *rng.pick(CUT_STYLES);
    let cuts = cut_positions(rng, grpc.len(), style, &starts);
    let chunks = if grpc.is_empty() { vec![] } else { split_at_cuts(&grpc, &cuts) };
    let mut steps = body_steps(rng, chunks, 1, 4, true);
    let mut tmap = HeaderMap::new();
    for (k, v) in &trailers {
        tmap.append(http::HeaderName::from_bytes(k.as_bytes()).unwrap(), HeaderValue::from_bytes(v).unwrap());
    }
    let with_trailers = rng.chance(9, 10);
    if with_trailers {
        steps.push(BStep::Trailers(tmap));
    }
    let accept: Option<&str> = *rng.pick(&[None, Some("application/grpc-web"), Some("application/grpc-web+proto"), Some("application/grpc-web-text"), Some("application/grpc-web-text+proto"), Some("*/*")]);
    // what the Accept header asks for; when it asks for neither form (absent, */*) the form is the
    // layer's choice and is read off the response's own content-type
    let asked: Option<bool> = match accept {
        Some("application/grpc-web-text") | Some("application/grpc-web-text+proto") => Some(true),
        Some("application/grpc-web") | Some("application/grpc-web+proto") => Some(false),
        _ => None,
    };
    let mut text = asked.unwrap_or(false);
    let ctype = *rng.pick(&["application/grpc-web", "application/grpc-web+proto", "application/grpc-web-text", "application/grpc-web-text+proto"]);
    let case_json = json!({"frames": frames.iter().map(|f| json!([f.0, f.1.len()])).collect::<Vec<_>>(), "trailers": trailers.iter().map(|(k, v)| json!([k, String::from_utf8_lossy(v)])).collect::<Vec<_>>(),
        "cut_style": format!("{:?}", style), "cuts": cuts.len(), "accept": accept, "content-type": ctype, "inner_sends_trailers": with_trailers});
    ctx.begin(if text { "text" } else { "binary" }, case_json.clone());
    ctx.count(if text { "resp.text" } else { "resp.binary" });
    if cuts.iter().any(|c| !starts.contains(c)) {
        ctx.count("resp.frame_split_across_chunks");
    }
    if trailers.iter().any(|(_, v)| v.contains(&b':')) {
        ctx.count("resp.trailers_with_colon");
    }
    let seen = Arc::new(Mutex::new(Seen::default()));
    // a gRPC service may label its responses with a subtype suffix
    let inner_ctype = *rng.pick(&["application/grpc", "application/grpc", "application/grpc+proto", "application/grpc+json"]);
    if inner_ctype != "application/grpc" {
        ctx.count("resp.inner_content_type_with_suffix");
    }
    let inner = Inner { seen: seen.clone(), steps: Arc::new(Mutex::new(Some(steps))), status: 200, ctype: inner_ctype };
    let mut svc = GrpcWebLayer::new().layer(inner);
    let mut req = http::Request::new(http_body_util::Full::new(Bytes::new()));
    *req.method_mut() = Method::POST;
    *req.version_mut() = if rng.bool() { Version::HTTP_11 } else { Version::HTTP_2 };
    *req.uri_mut() = "/pkg.S/M".parse().unwrap();
    req.headers_mut().insert("content-type", HeaderValue::from_static(ctype));
    if let Some(a) = accept {
        req.headers_mut().insert("accept", HeaderValue::from_static(a));
    }
    let mut ex = Exec::new();
    let resp = match ex.block_on(100_000, svc.call(req)) {
        Out::Done(Ok(r)) => r,
        _ => {
            ctx.violation("hang", "layer call did not complete".into());
            return;
        }
    };
    let (parts, body) = resp.into_parts();
    if asked.is_none() {
        text = parts.headers.get("content-type").map(|v| v.as_bytes().windows(4).any(|w| w == b"text")).unwrap_or(false);
        ctx.count("resp.accept_asks_for_neither_form");
    }
    let want_ct = if text { "application/grpc-web-text+proto" } else { "application/grpc-web+proto" };
    if parts.headers.get("content-type").map(|v| v.as_bytes()) != Some(want_ct.as_bytes()) {
        ctx.violation("response-content-type", format!("{:?}, want {}", parts.headers.get("content-type"), want_ct));
    }
    if parts.headers.get("x-inner").is_none() || parts.status != 200 {
        ctx.violation("response-head", "inner response head not preserved".into());
    }
    // collect chunks individually (text decoding is per chunk)
    let mut body = Box::pin(body);
    let mut chunks_out: Vec<Vec<u8>> = Vec::new();
    let mut http_trailers = None;
    for _ in 0..100_000 {
        match ex.drive(100_000, |cx| body.as_mut().poll_frame(cx)) {
            Out::Done(Some(Ok(f))) => {
                if f.is_data() {
                    chunks_out.push(f.into_data().ok().unwrap().to_vec());
                } else {
                    http_trailers = f.into_trailers().ok();
                }
            }
            Out::Done(Some(Err(e))) => {
                ctx.violation("response-body-error", format!("{:?}", e.message()));
                return;
            }
            Out::Done(None) => break,
            _ => {
                ctx.violation("hang", "response body did not complete".into());
                return;
            }
        }
    }
    if http_trailers.is_some() {
        ctx.violation("http-trailers-leaked", "grpc-web response still carries HTTP trailers".into());
    }
    match decode_web_response(&chunks_out, text) {
        Err(e) => ctx.violation("web-body-undecodable", e),
        Ok((msgs, tr, after)) => {
            if msgs != grpc {
                ctx.violation("message-bytes-differ", format!("decoded {} message bytes, inner sent {}", msgs.len(), grpc.len()));
            }
            if after > 0 {
                ctx.violation("frames-after-trailers", format!("{} message frames after the trailers frame", after));
            }
            if with_trailers {
                if tr.len() != 1 {
                    ctx.violation("trailers-frame-count", format!("{} trailers frames", tr.len()));
                } else {
                    let mut got = MultiMap::new();
                    for (k, v) in &tr[0] {
                        got.entry(k.clone()).or_default().push(v.clone());
                    }
                    let mut want = MultiMap::new();
                    for (k, v) in &trailers {
                        want.entry(k.clone()).or_default().push(v.clone());
                    }
                    if got != want {
                        ctx.violation("trailers-differ", format!("trailers frame lists {:?}", got.keys().collect::<Vec<_>>()));
                    }
                }
            }
        }
    }
    ctx.fingerprint(format!("resp|{}|n{}|t{}|{:?}|{}", if text { "text" } else { "bin" }, n, trailers.len().min(4), style, accept.unwrap_or("-")), n > 0 && !cuts.is_empty());
    ctx.sample(case_json);
}

fn request_case(rng: &mut Rng, ctx: &mut Ctx) {
    let n = rng.urange(0, 3);
    let mut grpc = Vec::new();
    let mut starts = Vec::new();
    for _ in 0..n {
        starts.push(grpc.len());
        grpc.extend(ref_frame(rng.chance(1, 5) as u8, &rng.payload_of(if small() { &[0usize, 1, 2, 3, 4, 30] } else { &[0usize, 1, 2, 3, 4, 100, 2000] })));
    }
    let ctype = *rng.pick(&["application/grpc-web", "application/grpc-web+proto", "application/grpc-web-text", "application/grpc-web-text+proto"]);
    let text = ctype.contains("text");
    let padded = rng.bool();
    let wire: Vec<u8> = if text { b64_encode(&grpc, padded).into_bytes() } else { grpc.clone() };
    let style = *rng.pick(CUT_STYLES);
    let special: Vec<usize> = if text { starts.iter().map(|s| s * 4 / 3).collect() } else { starts.clone() };
    let cuts = cut_positions(rng, wire.len(), style, &special);
    let chunks = if wire.is_empty() { vec![] } else { split_at_cuts(&wire, &cuts) };
    let steps = body_steps(rng, chunks, 1, 4, true);
    let case_json = json!({"grpc_len": grpc.len(), "content-type": ctype, "padded": padded, "cut_style": format!("{:?}", style), "cuts": cuts});
    // an unpadded text body whose length is not a multiple of 4 is not valid grpc-web-text framing
    // for a decoder working on 4-character quanta; the protocol says base64 is padded, so only
    // padded (or naturally aligned) bodies are judged for equality
    let judged = !text || padded || wire.len() % 4 == 0;
    ctx.begin(if text { "text" } else { "binary" }, case_json.clone());
    ctx.count(if text { "req.text" } else { "req.binary" });
    if text {
        for c in &cuts {
            if c % 4 != 0 {
                ctx.count(&format!("req.text.cut_mod4.{}", c % 4));
            }
        }
    } else if cuts.iter().any(|c| starts.iter().any(|s| c > s && *c < s + 5)) {
        ctx.count("req.cut_inside_prefix");
    }
    let seen = Arc::new(Mutex::new(Seen::default()));
    let inner = Inner { seen: seen.clone(), steps: Arc::new(Mutex::new(Some(vec![]))), status: 200, ctype: "application/grpc" };
    let mut svc = GrpcWebLayer::new().layer(inner);
    let (sb, _) = ScriptBody::new(steps);
    let mut req = http::Request::new(sb);
    *req.method_mut() = Method::POST;
    *req.version_mut() = if rng.bool() { Version::HTTP_11 } else { Version::HTTP_2 };
    *req.uri_mut() = "/pkg.S/M?q=1".parse().unwrap();
    req.headers_mut().insert("content-type", HeaderValue::from_static(ctype));
    req.headers_mut().insert("x-user", HeaderValue::from_static("u"));
    req.headers_mut().insert("content-length", HeaderValue::from_str(&wire.len().to_string()).unwrap());
    // gRPC's own negotiation headers and custom metadata, present or absent: they belong to the
    // caller and must reach the inner service exactly as sent (none added, none altered)
    for (name, vals) in [
        ("grpc-accept-encoding", &["identity", "zstd", "gzip,deflate", "identity,zstd", ""][..]),
        ("grpc-encoding", &["identity", "gzip", "zstd"][..]),
        ("grpc-timeout", &["5S", "100m", "1H"][..]),
    ] {
        if rng.chance(2, 5) {
            req.headers_mut().insert(name, HeaderValue::from_static(*rng.pick(vals)));
        }
    }
    let user_meta = crate::gen::gen_meta(rng, 3, false);
    {
        let mut mm = tonic::metadata::MetadataMap::from_headers(std::mem::take(req.headers_mut()));
        crate::gen::apply_meta(&mut mm, &user_meta);
        *req.headers_mut() = mm.into_headers();
    }
    let sent_headers = req.headers().clone();
    let mut ex = Exec::new();
    let resp = match ex.block_on(100_000, svc.call(req)) {
        Out::Done(Ok(r)) => r,
        _ => {
            ctx.violation("hang", "layer call did not complete".into());
            return;
        }
    };
    let _ = drain_body(resp.into_body(), &mut ex);
    let s = seen.lock().unwrap().clone();
    if s.calls != 1 {
        ctx.violation("inner-call-count", format!("{}", s.calls));
        return;
    }
    let p = s.parts.unwrap();
    if p.headers.get("content-type").map(|v| v.as_bytes()) != Some(b"application/grpc") {
        ctx.violation("inner-content-type", format!("{:?}", p.headers.get("content-type")));
    }
    if p.headers.get("te").map(|v| v.as_bytes()) == Some(b"trailers") {
        // not constrained by the property: observed
        ctx.count("observed.inner_te_trailers");
    }
    {
        let keep = |k: &str| k.starts_with("grpc-") || user_meta.iter().any(|(uk, _)| uk == k);
        let mut sent = headers_to_multimap(&sent_headers);
        sent.retain(|k, _| keep(k));
        let mut got = headers_to_multimap(&p.headers);
        got.retain(|k, _| keep(k));
        if sent != got {
            ctx.violation("inner-grpc-headers-differ", format!("gRPC / custom headers sent {:?}, the inner service saw {:?}", sent.iter().map(|(k, v)| (k.clone(), v.iter().map(|x| String::from_utf8_lossy(x).to_string()).collect::<Vec<_>>())).collect::<Vec<_>>(), got.iter().map(|(k, v)| (k.clone(), v.iter().map(|x| String::from_utf8_lossy(x).to_string()).collect::<Vec<_>>())).collect::<Vec<_>>()));
        }
        ctx.count("req.grpc_headers_compared");
    }
    if p.headers.get("x-user").is_none() || p.uri != "/pkg.S/M?q=1" || p.method != Method::POST {
        ctx.violation("inner-head", "request head altered".into());
    }
    if judged {
        if let Some(e) = &s.body_err {
            ctx.violation("inner-body-error", format!("valid grpc-web request body failed: {}", e));
        } else if s.body != grpc {
            ctx.violation("inner-body-differs", format!("inner service received {} bytes, original gRPC bytes are {}", s.body.len(), grpc.len()));
        }
    } else if s.body_err.is_none() && s.body != grpc && !grpc.starts_with(&s.body) {
        ctx.violation("inner-body-garbled", "unpadded text body delivered bytes that are not a prefix of the original".into());
    }
    ctx.fingerprint(format!("req|{}|pad{}|n{}|{:?}", ctype, padded as u8, n, style), n > 0 && !cuts.is_empty());
    ctx.sample(case_json);
}

const M_METHODS: [&str; 7] = ["POST", "GET", "PUT", "DELETE", "OPTIONS", "HEAD", "PATCH"];
const M_VERSIONS: [Version; 3] = [Version::HTTP_10, Version::HTTP_11, Version::HTTP_2];
const M_CTYPES: [Option<&str>; 10] = [
    Some("application/grpc-web"), Some("application/grpc-web+proto"), Some("application/grpc-web-text"), Some("application/grpc-web-text+proto"),
    Some("application/grpc"), Some("application/grpc+proto"), Some("application/json"), Some("application/grpc-web+json"), Some("APPLICATION/GRPC-WEB"), None,
];

fn matrix_case(ctx: &mut Ctx, i: u64) {
    let method = M_METHODS[(i % 7) as usize];
    let version = M_VERSIONS[((i / 7) % 3) as usize];
    let ctype = M_CTYPES[((i / 21) % 10) as usize];
    ctx.begin(&format!("{}-{:?}-{}", method, version, ctype.unwrap_or("none")), json!({"method": method, "version": format!("{:?}", version), "content-type": ctype}));
    let is_web = matches!(ctype, Some("application/grpc-web") | Some("application/grpc-web+proto") | Some("application/grpc-web-text") | Some("application/grpc-web-text+proto"));
    let seen = Arc::new(Mutex::new(Seen::default()));
    let inner_body = b"inner-body".to_vec();
    let inner = Inner { seen: seen.clone(), steps: Arc::new(Mutex::new(Some(vec![BStep::Data(inner_body.clone())]))), status: 207, ctype: "application/grpc" };
    let mut svc = GrpcWebLayer::new().layer(inner);
    let req_bytes = ref_frame(0, b"abc");
    let mut req = http::Request::new(http_body_util::Full::new(Bytes::from(req_bytes.clone())));
    *req.method_mut() = Method::from_bytes(method.as_bytes()).unwrap();
    *req.version_mut() = version;
    *req.uri_mut() = "/pkg.S/M".parse().unwrap();
    if let Some(c) = ctype {
        req.headers_mut().insert("content-type", HeaderValue::from_static(c));
    }
    req.headers_mut().insert("x-user", HeaderValue::from_static("u"));
    let mut ex = Exec::new();
    let resp = match ex.block_on(100_000, svc.call(req)) {
        Out::Done(Ok(r)) => r,
        _ => {
            ctx.violation("hang", "layer call did not complete".into());
            return;
        }
    };
    let (parts, body) = resp.into_parts();
    let drained = drain_body(body, &mut ex);
    let s = seen.lock().unwrap().clone();
    if is_web && method != "POST" {
        ctx.count("matrix.405");
        if parts.status != 405 || s.calls != 0 {
            ctx.violation("want-405", format!("status {} inner calls {}", parts.status, s.calls));
        }
    } else if is_web {
        ctx.count("matrix.grpcweb");
        if s.calls != 1 || parts.status != 207 {
            ctx.violation("grpcweb-not-served", format!("status {} inner calls {}", parts.status, s.calls));
        }
    } else if version == Version::HTTP_2 {
        ctx.count("matrix.passthrough");
        // untouched pass-through: same method, URI, version, headers, body; response verbatim
        if s.calls != 1 {
            ctx.violation("passthrough-not-called", format!("inner calls {}", s.calls));
        } else {
            let p = s.parts.unwrap();
            if p.method.as_str() != method || p.version != version || p.uri != "/pkg.S/M" || p.headers.get("content-type").map(|v| v.as_bytes()) != ctype.map(|c| c.as_bytes()) || p.headers.get("x-user").is_none() || p.headers.get("te").is_some() {
                ctx.violation("passthrough-request-altered", "pass-through request head altered".into());
            }
            if s.body != req_bytes {
                ctx.violation("passthrough-body-altered", "pass-through request body altered".into());
            }
            match drained {
                Ok((d, _, _)) if d == inner_body && parts.status == 207 && parts.headers.get("content-type").map(|v| v.as_bytes()) == Some(b"application/grpc") => {}
                other => ctx.violation("passthrough-response-altered", format!("status {} body {:?}", parts.status, other.map(|x| x.0.len()))),
            }
        }
    } else {
        ctx.count("matrix.400");
        if parts.status != 400 || s.calls != 0 {
            ctx.violation("want-400", format!("status {} inner calls {}", parts.status, s.calls));
        }
    }
    ctx.fingerprint(format!("matrix|{}|{:?}|{}", method, version, ctype.unwrap_or("none")), true);
}
