//! C15 — TLS channels and servers authenticate the peer and insist on HTTP/2.
use crate::ctx::*;
use crate::pb::verif::{verif_client::VerifClient, verif_server::VerifServer};
use crate::pb::Msg;
use crate::prng::Rng;
use crate::svc::*;
use crate::transport::*;
use hyper_util::rt::TokioIo;
use serde_json::json;
use std::sync::{Arc, Mutex};
use std::time::Duration;
use tokio::sync::mpsc;
use tokio_rustls::rustls;
use tokio_rustls::rustls::pki_types::{pem::PemObject, CertificateDer, PrivateKeyDer};
use tonic::transport::{Certificate, ClientTlsConfig, Endpoint, Identity, Server, ServerTlsConfig};

const CA1: &str = include_str!("../../../fixtures/pki/ca1.pem");
const CA2: &str = include_str!("../../../fixtures/pki/ca2.pem");
const CCA1: &str = include_str!("../../../fixtures/pki/cca1.pem");
const SERVER_PEM: &str = include_str!("../../../fixtures/pki/server.pem");
const SERVER_KEY: &str = include_str!("../../../fixtures/pki/server.key");
const CLIENT1_PEM: &str = include_str!("../../../fixtures/pki/client1.pem");
const CLIENT1_KEY: &str = include_str!("../../../fixtures/pki/client1.key");
/// leaf issued by an intermediate CA under CCA1, followed by that intermediate
const CLIENT3_CHAIN_PEM: &str = include_str!("../../../fixtures/pki/client3.pem");
const CLIENT3_KEY: &str = include_str!("../../../fixtures/pki/client3.key");
const CLIENT2_PEM: &str = include_str!("../../../fixtures/pki/client2.pem");
const CLIENT2_KEY: &str = include_str!("../../../fixtures/pki/client2.key");

#[derive(Clone, Copy, Debug, PartialEq)]
enum Roots { Right, Other, None }
#[derive(Clone, Copy, Debug, PartialEq)]
enum Domain { ConfiguredMatch, ConfiguredMismatch, UriMatch, UriMismatch }
#[derive(Clone, Copy, Debug, PartialEq)]
enum Alpn { H2, None, Http11 }
#[derive(Clone, Copy, Debug, PartialEq)]
enum ClientAuth { None, Required, Optional }
#[derive(Clone, Copy, Debug, PartialEq)]
enum Ident { None, Valid, OtherCa }

#[derive(Clone, Copy, Debug)]
struct Cfg {
    roots: Roots,
    domain: Domain,
    alpn: Alpn,
    assume_h2: bool,
    auth: ClientAuth,
    ident: Ident,
    /// orthogonal server flag that must not influence authentication
    ignore_client_order: bool,
}

fn matrix() -> Vec<Cfg> {
    let mut v = Vec::new();
    for roots in [Roots::Right, Roots::Other, Roots::None] {
        for domain in [Domain::ConfiguredMatch, Domain::ConfiguredMismatch, Domain::UriMatch, Domain::UriMismatch] {
            for alpn in [Alpn::H2, Alpn::None, Alpn::Http11] {
                for assume_h2 in [false, true] {
                    for auth in [ClientAuth::None, ClientAuth::Required, ClientAuth::Optional] {
                        for ident in [Ident::None, Ident::Valid, Ident::OtherCa] {
                            for ico in [false, true] {
                                if ico && alpn != Alpn::H2 {
                                    continue; // the flag only exists on tonic's own server config
                                }
                                v.push(Cfg { roots, domain, alpn, assume_h2, auth, ident, ignore_client_order: ico });
                            }
                        }
                    }
                }
            }
        }
    }
    v
}

pub fn run(cfg: &RunCfg) -> Ctx {
    let m = Arc::new(matrix());
    let n = m.len() as u64;
    let reps = if cfg.thorough { 16 } else { 3 };
    let mut all = Ctx::new();
    let mm = m.clone();
    all.merge(par_cases(cfg, "matrix", n * reps, || (), move |_, rng, ctx, i| case(rng, ctx, mm[(i % n) as usize], i / n)));
    all.merge(par_cases(cfg, "https-without-tls", 6, || (), |_, rng, ctx, i| no_tls_case(rng, ctx, i)));
    all.merge(par_cases(cfg, "client-ca-without-certificate", 24, || (), |_, rng, ctx, i| bad_client_ca_case(rng, ctx, i)));
    all.merge(par_cases(cfg, "peers", cfg.n(60, 16 * 400), || (), |_, rng, ctx, _| peers_case(rng, ctx, false)));
    for k in ["peers.seen.none", "peers.seen.client1", "peers.seen.client3-chain"] {
        all.floor(k, 5);
    }
    if !crate::ctx::small() {
        all.merge(par_cases(cfg, "balance-tls", cfg.n(12, 16 * 12), || (), |_, _rng, ctx, i| balance_tls_case(ctx, i)));
    }
    all.add("matrix.size", n);
    for k in ["expect.success", "expect.fail.chain", "expect.fail.name", "expect.fail.alpn", "expect.fail.client_auth", "observed.handshake_records", "observed.peer_certs_some", "observed.peer_certs_none", "cfg.tls_config_called_twice"] {
        all.floor(k, 5);
    }
    all
}

fn server_config(alpn: Alpn, auth: ClientAuth) -> Arc<rustls::ServerConfig> {
    let provider = Arc::new(rustls::crypto::ring::default_provider());
    let b = rustls::ServerConfig::builder_with_provider(provider.clone()).with_safe_default_protocol_versions().expect("verif-harness-bug: tls versions");
    let b = match auth {
        ClientAuth::None => b.with_no_client_auth(),
        _ => {
            let mut roots = rustls::RootCertStore::empty();
            for c in CertificateDer::pem_slice_iter(CCA1.as_bytes()) {
                roots.add(c.expect("verif-harness-bug: pem")).expect("verif-harness-bug: root");
            }
            let vb = rustls::server::WebPkiClientVerifier::builder_with_provider(Arc::new(roots), provider);
            let vb = if auth == ClientAuth::Optional { vb.allow_unauthenticated() } else { vb };
            b.with_client_cert_verifier(vb.build().expect("verif-harness-bug: verifier"))
        }
    };
    let certs: Vec<CertificateDer<'static>> = CertificateDer::pem_slice_iter(SERVER_PEM.as_bytes()).map(|c| c.expect("verif-harness-bug: pem")).collect();
    let key = PrivateKeyDer::from_pem_slice(SERVER_KEY.as_bytes()).expect("verif-harness-bug: key");
    let mut c = b.with_single_cert(certs, key).expect("verif-harness-bug: server cert");
    c.alpn_protocols = match alpn {
        Alpn::H2 => vec![b"h2".to_vec()],
        Alpn::None => vec![],
        Alpn::Http11 => vec![b"http/1.1".to_vec()],
    };
    Arc::new(c)
}

struct TlsIncoming(mpsc::UnboundedReceiver<tokio_rustls::server::TlsStream<PipeEnd>>);
impl tokio_stream::Stream for TlsIncoming {
    type Item = Result<tokio_rustls::server::TlsStream<PipeEnd>, std::io::Error>;
    fn poll_next(mut self: std::pin::Pin<&mut Self>, cx: &mut std::task::Context<'_>) -> std::task::Poll<Option<Self::Item>> {
        self.0.poll_recv(cx).map(|o| o.map(Ok))
    }
}

fn case(rng: &mut Rng, ctx: &mut Ctx, c: Cfg, rep: u64) {
    // decision table written from the property text
    let chain_ok = c.roots == Roots::Right;
    let name_ok = matches!(c.domain, Domain::ConfiguredMatch | Domain::UriMatch);
    let alpn_ok = match c.alpn {
        Alpn::H2 => true,
        Alpn::None => c.assume_h2,
        Alpn::Http11 => false, // the client offers only h2: no protocol in common
    };
    let auth_ok = match (c.auth, c.ident) {
        (ClientAuth::None, _) => true,
        (ClientAuth::Required, Ident::Valid) => true,
        (ClientAuth::Required, _) => false,
        (ClientAuth::Optional, Ident::OtherCa) => false,
        (ClientAuth::Optional, _) => true,
    };
    let expect_ok = chain_ok && name_ok && alpn_ok && auth_ok;
    let why = if !chain_ok { "chain" } else if !name_ok { "name" } else if !alpn_ok { "alpn" } else if !auth_ok { "client_auth" } else { "" };
    let case_json = json!({"client_roots": format!("{:?}", c.roots), "domain": format!("{:?}", c.domain), "server_alpn": format!("{:?}", c.alpn), "assume_http2": c.assume_h2,
        "server_client_auth": format!("{:?}", c.auth), "client_identity": format!("{:?}", c.ident), "ignore_client_order": c.ignore_client_order, "rep": rep, "expect_success": expect_ok});
    ctx.begin(&format!("{:?}-{:?}-{:?}-a{}-{:?}-{:?}-ico{}", c.roots, c.domain, c.alpn, c.assume_h2 as u8, c.auth, c.ident, c.ignore_client_order as u8), case_json.clone());
    ctx.count(if expect_ok { "expect.success".to_string() } else { format!("expect.fail.{}", why) }.as_str());
    let pcfg = if rep == 0 { PipeCfg::plain() } else { PipeCfg::gen(rng) };
    let seed = rng.u64();
    // repetition 0 is the plain cell; later repetitions vary what must not matter: builder call
    // order, eager or lazy connect, and which non-matching name is configured
    let call_shape = if rep == 0 { crate::svc::Shape::Unary } else { *rng.pick(&crate::svc::SHAPES) };
    // a valid client identity may be a chain (leaf + intermediate): the handler sees the whole chain
    let chain_ident = rep > 0 && c.ident == Ident::Valid && rng.bool();
    // how the server is assembled around its TLS configuration must not matter: a layer and/or a
    // trace function added after `tls_config`
    let srv_variant = if rep == 0 { 0 } else { rng.below(4) };
    if chain_ident {
        ctx.count("cfg.client_identity_chain");
    }
    if srv_variant != 0 {
        ctx.count("cfg.server_layer_or_trace_fn");
    }
    // `Endpoint::origin` changes the :authority the requests carry, never whom TLS authenticates
    let origin: Option<&'static str> = if rep == 0 { None } else { *rng.pick(&[None, None, Some("https://verif.test"), Some("https://other.test"), Some("http://verif.test:80")]) };
    let (server_order, client_order, lazy_connect, wrong_name) = if rep == 0 {
        (0u64, 0u64, false, "other.test")
    } else {
        (rng.below(6), rng.below(8), rng.chance(1, 3), *rng.pick(&["other.test", "verif.test:443", "https://verif.test", "", "verif.test/", "verif test", "*.test", "test", "xverif.test", "verif.test.evil"]))
    };
    let reconfigured = rep > 0 && (seed >> 9) % 3 == 0;
    if reconfigured {
        ctx.count("cfg.tls_config_called_twice");
    }
    if c.domain == Domain::ConfiguredMismatch {
        ctx.distinct("wrong_names", wrong_name);
    }
    ctx.distinct("builder_orders", &format!("s{}c{}l{}", server_order, client_order, lazy_connect as u8));
    ctx.count(&format!("shape.{:?}", call_shape));
    if origin.is_some() {
        ctx.count("cfg.origin_set");
    }
    let rt = paused_rt();
    let handler = Handler::new();
    let pipes: Arc<Mutex<Vec<PipeHandle>>> = Arc::new(Mutex::new(Vec::new()));
    let h2 = handler.clone();
    let pipes2 = pipes.clone();
    let result: Result<(bool, String), String> = rt.block_on(async move {
        // ---- server
        let (raw_tx, mut raw_rx) = mpsc::unbounded_channel::<PipeEnd>();
        let server_task = if c.alpn == Alpn::H2 {
            // builder calls in an order chosen per repetition: the resulting configuration is the same
            let mut tls = ServerTlsConfig::new();
            let mut steps: Vec<u8> = vec![0, 1, 2];
            if server_order != 0 {
                steps.rotate_left((server_order % 3) as usize);
                if server_order >= 3 {
                    steps.swap(0, 1);
                }
            }
            for st in steps {
                tls = match st {
                    0 => tls.identity(Identity::from_pem(SERVER_PEM, SERVER_KEY)),
                    1 => tls.ignore_client_order(c.ignore_client_order),
                    _ => match c.auth {
                        ClientAuth::None => tls,
                        ClientAuth::Required => tls.client_ca_root(Certificate::from_pem(CCA1)),
                        ClientAuth::Optional if server_order % 2 == 0 => tls.client_ca_root(Certificate::from_pem(CCA1)).client_auth_optional(true),
                        ClientAuth::Optional => tls.client_auth_optional(true).client_ca_root(Certificate::from_pem(CCA1)),
                    },
                };
            }
            let sb = Server::builder().tls_config(tls).map_err(|e| format!("server tls_config: {}", e))?;
            let (tx, rx) = mpsc::unbounded_channel();
            tokio::spawn(async move {
                while let Some(p) = raw_rx.recv().await {
                    let _ = tx.send(Ok::<_, std::io::Error>(p));
                }
            });
            let inc = crate::props::c14::Incoming(rx);
            let svc = VerifServer::new(h2);
            match srv_variant {
                0 => {
                    let mut sb = sb;
                    let router = sb.add_service(svc);
                    tokio::spawn(async move {
                        let _ = router.serve_with_incoming(inc).await;
                    })
                }
                1 => {
                    let mut sb = sb.layer(tower::layer::util::Identity::new());
                    let router = sb.add_service(svc);
                    tokio::spawn(async move {
                        let _ = router.serve_with_incoming(inc).await;
                    })
                }
                2 => {
                    let mut sb = sb.trace_fn(|_| tracing::Span::none());
                    let router = sb.add_service(svc);
                    tokio::spawn(async move {
                        let _ = router.serve_with_incoming(inc).await;
                    })
                }
                _ => {
                    let mut sb = sb.trace_fn(|_| tracing::Span::none()).layer(tower::layer::util::Identity::new());
                    let router = sb.add_service(svc);
                    tokio::spawn(async move {
                        let _ = router.serve_with_incoming(inc).await;
                    })
                }
            }
        } else {
            // harness-side acceptor with the requested ALPN; the accepted TLS streams are served by tonic
            let acceptor = tokio_rustls::TlsAcceptor::from(server_config(c.alpn, c.auth));
            let (tx, rx) = mpsc::unbounded_channel();
            tokio::spawn(async move {
                while let Some(p) = raw_rx.recv().await {
                    let acc = acceptor.clone();
                    let tx = tx.clone();
                    tokio::spawn(async move {
                        if let Ok(s) = acc.accept(p).await {
                            let _ = tx.send(s);
                        }
                    });
                }
            });
            let router = Server::builder().add_service(VerifServer::new(h2));
            tokio::spawn(async move {
                let _ = router.serve_with_incoming(TlsIncoming(rx)).await;
            })
        };
        // ---- client
        let connector = tower::service_fn(move |_uri: http::Uri| {
            let raw_tx = raw_tx.clone();
            let pipes = pipes2.clone();
            async move {
                // a channel that reconnects without end must not take the machine down with it
                if pipes.lock().unwrap().len() >= 500 {
                    return Err(std::io::Error::other("verif: the connector was invoked more than 500 times for one call"));
                }
                let (a, b, h) = pipe("tls", pcfg, Rng::new(seed), None);
                pipes.lock().unwrap().push(h);
                raw_tx.send(b).map_err(|_| std::io::Error::new(std::io::ErrorKind::ConnectionRefused, "listener gone"))?;
                Ok::<_, std::io::Error>(TokioIo::new(a))
            }
        });
        let uri = match c.domain {
            Domain::UriMismatch => "https://wrong.test:443",
            _ => "https://verif.test:443",
        };
        let mut tls = ClientTlsConfig::new();
        let mut steps: Vec<u8> = vec![0, 1, 2, 3];
        steps.rotate_left((client_order % 4) as usize);
        if client_order >= 4 {
            steps.swap(1, 2);
        }
        for st in steps {
            tls = match st {
                0 => tls.assume_http2(c.assume_h2),
                1 => match c.roots {
                    Roots::Right => tls.ca_certificate(Certificate::from_pem(CA1)),
                    Roots::Other => tls.ca_certificate(Certificate::from_pem(CA2)),
                    Roots::None => tls,
                },
                2 => match c.domain {
                    Domain::ConfiguredMatch => tls.domain_name("verif.test"),
                    Domain::ConfiguredMismatch => tls.domain_name(wrong_name),
                    _ => tls,
                },
                _ => match c.ident {
                    Ident::None => tls,
                    Ident::Valid if chain_ident => tls.identity(Identity::from_pem(CLIENT3_CHAIN_PEM, CLIENT3_KEY)),
                    Ident::Valid => tls.identity(Identity::from_pem(CLIENT1_PEM, CLIENT1_KEY)),
                    Ident::OtherCa => tls.identity(Identity::from_pem(CLIENT2_PEM, CLIENT2_KEY)),
                },
            };
        }
        let ep0 = match origin {
            // set before tls_config, as an application that configures its endpoint top-down does
            Some(o) => Endpoint::from_static(uri).origin(o.parse().expect("verif-harness-bug: origin uri")),
            None => Endpoint::from_static(uri),
        };
        // some repetitions configure the endpoint twice: first with the opposite of what this
        // cell wants (a trusting decoy for a cell that must fail, a distrusting one for a cell
        // that must succeed), then with the cell's configuration.  The last `tls_config` is the
        // one the caller asked for; an endpoint that cannot take the decoy is used as it was
        let ep0 = if reconfigured {
            let decoy = if chain_ok {
                ClientTlsConfig::new().ca_certificate(Certificate::from_pem(CA2)).domain_name("other.test")
            } else {
                ClientTlsConfig::new().ca_certificate(Certificate::from_pem(CA1)).domain_name("verif.test").assume_http2(true).identity(Identity::from_pem(CLIENT1_PEM, CLIENT1_KEY))
            };
            match ep0.clone().tls_config(decoy) {
                Ok(e) => e,
                Err(_) => ep0,
            }
        } else {
            ep0
        };
        let connected = match ep0.tls_config(tls) {
            // a configuration that is refused outright is a rejection too (nothing is ever sent)
            Err(e) => Ok(Err(format!("client tls_config: {}", e))),
            Ok(ep) if lazy_connect => Ok(Ok(ep.connect_with_connector_lazy(connector))),
            Ok(ep) => tokio::time::timeout(Duration::from_secs(60), ep.connect_with_connector(connector)).await.map(|r| r.map_err(|e| format!("connect: {:?}", e))),
        };
        let out = match connected {
            Err(_) => return Err("connect did not resolve within 60 virtual seconds".to_string()),
            Ok(Err(e)) => (false, e),
            Ok(Ok(ch)) => {
                let mut client = VerifClient::new(ch);
                // repetition 0 is a unary call; later repetitions use any of the four shapes (the
                // verified peer must be visible to every kind of handler)
                let spec = crate::svc::CallSpec { id: "tls".into(), shape: call_shape, req_msgs: vec![Msg { data: vec![9; 40], seq: 7, tag: "tls".into() }, Msg { data: vec![8; 4], seq: 8, tag: "tls".into() }], req_meta: vec![], req_pend: vec![], req_gaps_ms: vec![], timeout: None, pingpong: None };
                match tokio::time::timeout(Duration::from_secs(60), crate::svc::do_call(&mut client, &spec, None)).await {
                    Err(_) => return Err("call did not resolve within 60 virtual seconds".to_string()),
                    Ok(view) => match (&view.call_err, &view.end) {
                        (Some(s), _) => (false, format!("call: code {} {}", s.code, s.message)),
                        (None, Some(Err(s))) => (false, format!("stream: code {} {}", s.code, s.message)),
                        (None, Some(Ok(()))) if view.finished => (true, String::new()),
                        _ => (false, "call did not finish".to_string()),
                    },
                }
            }
        };
        quiesce().await;
        server_task.abort();
        Ok(out)
    });
    drop(rt);
    let (ok, detail) = match result {
        Ok(x) => x,
        Err(e) => {
            ctx.violation("hang-or-setup", e);
            return;
        }
    };
    let entered = handler.total_entered.load(std::sync::atomic::Ordering::SeqCst);
    if pipes.lock().unwrap().len() >= 500 {
        ctx.violation("reconnect-storm", format!("one call made the channel invoke its connector {} times or more without settling on an answer", pipes.lock().unwrap().len()));
    }
    if ok != expect_ok {
        if ok {
            ctx.violation_class("served-but-must-fail", why, format!("the call succeeded although it must fail ({} check)", why));
        } else {
            ctx.violation("failed-but-must-succeed", format!("the call failed although every condition holds: {}", detail));
        }
    }
    if !expect_ok && entered != 0 {
        ctx.violation_class("handler-reached", why, format!("a request reached the handler ({}x) although the {} check must reject the connection", entered, why));
    }
    if ok && entered != 1 {
        ctx.violation("ok-without-handler", format!("Ok but handler ran {} times", entered));
    }
    // what the client wrote first: always a TLS handshake record, never the plaintext preface
    for p in pipes.lock().unwrap().iter() {
        let tap = p.tap(0);
        if tap.is_empty() {
            continue;
        }
        if tap.len() >= 3 && tap[0] == 0x16 && tap[1] == 0x03 {
            ctx.count("observed.handshake_records");
        } else {
            ctx.violation("plaintext-on-https", format!("the client's first bytes on an https endpoint are not a TLS handshake record: {}", hex(&tap[..tap.len().min(24)])));
        }
        if tap.windows(14).any(|w| w == b"PRI * HTTP/2.0") {
            ctx.violation("plaintext-on-https", "plaintext HTTP/2 preface on the wire".into());
        }
    }
    // peer certificates exposed to the handler
    if ok {
        let log = handler.log("tls");
        let want = match (c.auth, c.ident) {
            (ClientAuth::Required, Ident::Valid) | (ClientAuth::Optional, Ident::Valid) => Some(if chain_ident { 2 } else { 1 }),
            _ => None,
        };
        if log.peer_certs != want {
            ctx.violation("peer-certs", format!("handler saw peer_certs = {:?}, verified client chain has {:?} certificate(s)", log.peer_certs, want));
        }
        ctx.count(if want.is_some() { "observed.peer_certs_some" } else { "observed.peer_certs_none" });
    }
    ctx.fingerprint(format!("{:?}|{:?}|{:?}|{}|{:?}|{:?}|{}|rep{}", c.roots, c.domain, c.alpn, c.assume_h2 as u8, c.auth, c.ident, c.ignore_client_order as u8, rep), true);
    if !expect_ok {
        ctx.sample(case_json);
    }
}

fn no_tls_case(rng: &mut Rng, ctx: &mut Ctx, i: u64) {
    // https URI with no TLS configuration: must fail, nothing reaches a handler, nothing in plaintext
    let lazy = i % 2 == 0;
    ctx.begin("https-no-tls-config", json!({"lazy": lazy}));
    let rt = paused_rt();
    let handler = Handler::new();
    let h2 = handler.clone();
    let seed = rng.u64();
    let wrote: Arc<Mutex<Vec<PipeHandle>>> = Arc::new(Mutex::new(Vec::new()));
    let w2 = wrote.clone();
    let r: Result<bool, String> = rt.block_on(async move {
        let (tx, rx) = mpsc::unbounded_channel();
        let router = Server::builder().add_service(VerifServer::new(h2));
        let st = tokio::spawn(async move {
            let _ = router.serve_with_incoming(crate::props::c14::Incoming(rx)).await;
        });
        let connector = tower::service_fn(move |_uri: http::Uri| {
            let tx = tx.clone();
            let w2 = w2.clone();
            async move {
                let (a, b, h) = pipe("plain", PipeCfg::plain(), Rng::new(seed), None);
                w2.lock().unwrap().push(h);
                let _ = tx.send(Ok::<_, std::io::Error>(b));
                Ok::<_, std::io::Error>(TokioIo::new(a))
            }
        });
        let ep = Endpoint::from_static("https://verif.test:443");
        let ch = if lazy {
            ep.connect_with_connector_lazy(connector)
        } else {
            match tokio::time::timeout(Duration::from_secs(60), ep.connect_with_connector(connector)).await {
                Err(_) => return Err("connect hang".to_string()),
                Ok(Err(_)) => {
                    st.abort();
                    return Ok(false);
                }
                Ok(Ok(ch)) => ch,
            }
        };
        let mut client = VerifClient::new(ch);
        let r = tokio::time::timeout(Duration::from_secs(60), client.unary(tonic::Request::new(Msg::default()))).await;
        quiesce().await;
        st.abort();
        match r {
            Err(_) => Err("call hang".to_string()),
            Ok(r) => Ok(r.is_ok()),
        }
    });
    drop(rt);
    match r {
        Err(e) => ctx.violation("hang", e),
        Ok(true) => ctx.violation("https-without-tls-served", "a call over an https URI without TLS configuration succeeded".into()),
        Ok(false) => {}
    }
    if handler.total_entered.load(std::sync::atomic::Ordering::SeqCst) != 0 {
        ctx.violation("handler-reached", "request reached the handler over plaintext".into());
    }
    for p in wrote.lock().unwrap().iter() {
        if !p.tap(0).is_empty() {
            ctx.violation("plaintext-on-https", format!("the client wrote {} plaintext bytes on an https endpoint without TLS", p.tap(0).len()));
        }
    }
    ctx.fingerprint(format!("no-tls|{}", lazy), true);
}

/// A server told to authenticate clients against a CA file that contains no usable certificate:
/// the configuration is refused, or nobody gets in - an anonymous client is never served.
fn bad_client_ca_case(rng: &mut Rng, ctx: &mut Ctx, i: u64) {
    let variants: [(&str, String); 6] = [
        ("private-key-file", SERVER_KEY.to_string()),
        ("empty", String::new()),
        ("trusted-certificate-label", CCA1.replace("BEGIN CERTIFICATE", "BEGIN TRUSTED CERTIFICATE").replace("END CERTIFICATE", "END TRUSTED CERTIFICATE")),
        ("plain-text", "this is not a PEM file\n".to_string()),
        ("truncated", CCA1.chars().take(CCA1.len() / 2).collect()),
        ("crl-label", CCA1.replace("BEGIN CERTIFICATE", "BEGIN X509 CRL").replace("END CERTIFICATE", "END X509 CRL")),
    ];
    let (vname, pem) = variants[(i as usize) % variants.len()].clone();
    let optional = (i / variants.len() as u64) % 2 == 1;
    let ca_first = rng.bool();
    ctx.begin("bad-client-ca", json!({"client_ca_file": vname, "client_auth_optional": optional, "client_ca_root_before_identity": ca_first}));
    let rt = paused_rt();
    let handler = Handler::new();
    let h2 = handler.clone();
    let seed = rng.u64();
    let r: Result<&'static str, String> = rt.block_on(async move {
        let mut tls = ServerTlsConfig::new();
        if ca_first {
            tls = tls.client_ca_root(Certificate::from_pem(pem.clone())).identity(Identity::from_pem(SERVER_PEM, SERVER_KEY));
        } else {
            tls = tls.identity(Identity::from_pem(SERVER_PEM, SERVER_KEY)).client_ca_root(Certificate::from_pem(pem.clone()));
        }
        if optional {
            tls = tls.client_auth_optional(true);
        }
        let router = match Server::builder().tls_config(tls) {
            Err(_) => return Ok("config-refused"),
            Ok(mut b) => b.add_service(VerifServer::new(h2)),
        };
        let (tx, rx) = mpsc::unbounded_channel();
        let st = tokio::spawn(async move {
            let _ = router.serve_with_incoming(crate::props::c14::Incoming(rx)).await;
        });
        let connector = tower::service_fn(move |_uri: http::Uri| {
            let tx = tx.clone();
            async move {
                let (a, b, _h) = pipe("tls", PipeCfg::plain(), Rng::new(seed), None);
                let _ = tx.send(Ok::<_, std::io::Error>(b));
                Ok::<_, std::io::Error>(TokioIo::new(a))
            }
        });
        // an anonymous client that trusts the server
        let ctls = ClientTlsConfig::new().ca_certificate(Certificate::from_pem(CA1)).domain_name("verif.test");
        let ep = Endpoint::from_static("https://verif.test:443").tls_config(ctls).map_err(|e| format!("client tls_config: {}", e))?;
        let out = match tokio::time::timeout(Duration::from_secs(60), ep.connect_with_connector(connector)).await {
            Err(_) => return Err("connect hang".to_string()),
            Ok(Err(_)) => "refused",
            Ok(Ok(ch)) => {
                let mut client = VerifClient::new(ch);
                match tokio::time::timeout(Duration::from_secs(60), client.unary(tonic::Request::new(Msg::default()))).await {
                    Err(_) => return Err("call hang".to_string()),
                    Ok(Ok(_)) => "served",
                    Ok(Err(_)) => "refused",
                }
            }
        };
        quiesce().await;
        st.abort();
        Ok(out)
    });
    drop(rt);
    let entered = handler.total_entered.load(std::sync::atomic::Ordering::SeqCst);
    match r {
        Err(e) => ctx.violation("hang-or-setup", e),
        Ok(what) => {
            ctx.count(&format!("badca.{}", what));
            // with optional client auth an anonymous client is legitimately served once the
            // configuration is accepted; with required client auth it never is
            if !optional && (what == "served" || entered != 0) {
                ctx.violation_class("anonymous-client-served", vname, format!("a server configured to require client certificates from a CA file without a usable certificate ({}) served an anonymous client (handler ran {}x)", vname, entered));
            }
        }
    }
    ctx.fingerprint(format!("badca|{}|{}|{}", vname, optional as u8, ca_first as u8), true);
}

/// Several peers with different TLS identities on ONE server (client authentication optional):
/// every handler sees the verified chain of its own connection, whatever connected before it and
/// whether or not the earlier connections are still open.  With `with_shutdown` a further peer has
/// opened a transport connection and never starts its TLS handshake (a load balancer's TCP health
/// probe); the server is then told to shut down gracefully: the serve future has to resolve once
/// the accepted connections have closed — such a peer was never accepted as a connection.
pub fn peers_case(rng: &mut Rng, ctx: &mut Ctx, with_shutdown: bool) {
    // (identity, certificates the handler must see)
    let kinds: [(&str, Option<usize>); 3] = [("none", None), ("client1", Some(1)), ("client3-chain", Some(2))];
    let mut order: Vec<usize> = vec![0, 1, 2];
    rng.shuffle(&mut order);
    let n = rng.urange(2, 3);
    order.truncate(n);
    let keep_open: Vec<bool> = (0..n).map(|_| rng.bool()).collect();
    let stalled_at: Option<usize> = if with_shutdown { Some(rng.urange(0, n)) } else { None };
    let case_json = json!({"peers_in_order": order.iter().map(|&k| kinds[k].0).collect::<Vec<_>>(), "earlier_connections_kept_open": keep_open,
        "silent_transport_connection_before_peer": stalled_at, "graceful_shutdown_at_the_end": with_shutdown});
    ctx.begin(if with_shutdown { "peers-then-shutdown" } else { "peers" }, case_json.clone());
    let pcfg = if rng.bool() { PipeCfg::plain() } else { PipeCfg::gen(rng) };
    let seed = rng.u64();
    let rt = paused_rt();
    let handler = Handler::new();
    let h2 = handler.clone();
    let order2 = order.clone();
    let keep_open2 = keep_open.clone();
    let result: Result<Vec<Result<(), String>>, String> = rt.block_on(async move {
        let keep_open = keep_open2;
        let (raw_tx, raw_rx) = mpsc::unbounded_channel::<Result<PipeEnd, std::io::Error>>();
        let tls = ServerTlsConfig::new().identity(Identity::from_pem(SERVER_PEM, SERVER_KEY)).client_ca_root(Certificate::from_pem(CCA1)).client_auth_optional(true);
        let mut sb = Server::builder().tls_config(tls).map_err(|e| format!("server tls_config: {}", e))?;
        let router = sb.add_service(VerifServer::new(h2));
        let (sig_tx, sig_rx) = tokio::sync::oneshot::channel::<()>();
        let mut server_task = tokio::spawn(async move {
            let _ = router
                .serve_with_incoming_shutdown(crate::props::c14::Incoming(raw_rx), async move {
                    let _ = sig_rx.await;
                })
                .await;
        });
        let mut silent: Vec<PipeEnd> = Vec::new();
        let mut open: Vec<VerifClient<tonic::transport::Channel>> = Vec::new();
        let mut results: Vec<Result<(), String>> = Vec::new();
        for (j, &k) in order2.iter().enumerate() {
            if stalled_at == Some(j) {
                let (a, b, _h) = pipe("silent", pcfg, Rng::new(seed ^ 0x51), None);
                let _ = raw_tx.send(Ok(b));
                silent.push(a);
                quiesce().await;
            }
            let raw_tx2 = raw_tx.clone();
            let connector = tower::service_fn(move |_uri: http::Uri| {
                let raw_tx = raw_tx2.clone();
                async move {
                    let (a, b, _h) = pipe("tls", pcfg, Rng::new(seed ^ (j as u64 + 1)), None);
                    raw_tx.send(Ok(b)).map_err(|_| std::io::Error::new(std::io::ErrorKind::ConnectionRefused, "listener gone"))?;
                    Ok::<_, std::io::Error>(TokioIo::new(a))
                }
            });
            let mut tls = ClientTlsConfig::new().ca_certificate(Certificate::from_pem(CA1)).domain_name("verif.test");
            tls = match k {
                1 => tls.identity(Identity::from_pem(CLIENT1_PEM, CLIENT1_KEY)),
                2 => tls.identity(Identity::from_pem(CLIENT3_CHAIN_PEM, CLIENT3_KEY)),
                _ => tls,
            };
            let ep = Endpoint::from_static("https://verif.test:443").tls_config(tls).map_err(|e| format!("client tls_config: {}", e))?;
            let ch = match tokio::time::timeout(Duration::from_secs(60), ep.connect_with_connector(connector)).await {
                Err(_) => return Err(format!("peer {}: connect did not resolve within 60 virtual seconds", j)),
                Ok(Err(e)) => {
                    results.push(Err(format!("connect: {:?}", e)));
                    continue;
                }
                Ok(Ok(ch)) => ch,
            };
            let mut client = VerifClient::new(ch);
            let spec = crate::svc::CallSpec { id: format!("p{}", j), shape: crate::svc::Shape::Unary, req_msgs: vec![Msg { data: vec![j as u8; 10], seq: j as u64, tag: "peer".into() }], req_meta: vec![], req_pend: vec![], req_gaps_ms: vec![], timeout: None, pingpong: None };
            match tokio::time::timeout(Duration::from_secs(60), crate::svc::do_call(&mut client, &spec, None)).await {
                Err(_) => return Err(format!("peer {}: call did not resolve within 60 virtual seconds", j)),
                Ok(view) => results.push(match (&view.call_err, &view.end) {
                    (Some(s), _) => Err(format!("call: code {} {}", s.code, s.message)),
                    (None, Some(Ok(()))) if view.finished => Ok(()),
                    _ => Err("call did not finish".to_string()),
                }),
            }
            if keep_open[j] {
                open.push(client);
            } else {
                drop(client);
                quiesce().await;
            }
        }
        if with_shutdown {
            let _ = sig_tx.send(());
            quiesce().await;
            drop(open);
            match tokio::time::timeout(Duration::from_secs(60), &mut server_task).await {
                Ok(_) => {}
                Err(_) => {
                    server_task.abort();
                    return Err("SERVE-STUCK".to_string());
                }
            }
        } else {
            drop(open);
            quiesce().await;
            server_task.abort();
        }
        drop(silent);
        Ok(results)
    });
    drop(rt);
    let results = match result {
        Ok(r) => r,
        Err(e) if e == "SERVE-STUCK" => {
            ctx.violation("serve-did-not-resolve", "60 virtual seconds after the shutdown signal, with every accepted connection closed, the serve future has not resolved (a transport connection that never began its TLS handshake is still open)".into());
            return;
        }
        Err(e) => {
            ctx.violation("hang-or-setup", e);
            return;
        }
    };
    for (j, &k) in order.iter().enumerate() {
        match results.get(j) {
            Some(Ok(())) => {
                let log = handler.log(&format!("p{}", j));
                if log.peer_certs != kinds[k].1 {
                    ctx.violation_class("peer-certs-of-another-connection", kinds[k].0, format!("peer {} ({}) : its handler saw peer_certs = {:?}, the verified chain of that connection has {:?} certificate(s); peers before it: {:?}", j, kinds[k].0, log.peer_certs, kinds[k].1, order[..j].iter().map(|&x| kinds[x].0).collect::<Vec<_>>()));
                }
                ctx.count(&format!("peers.seen.{}", kinds[k].0));
            }
            Some(Err(e)) => ctx.violation("failed-but-must-succeed", format!("peer {} ({}) must be served (client authentication is optional and its identity is valid): {}", j, kinds[k].0, e)),
            None => ctx.violation("hang-or-setup", format!("no result for peer {}", j)),
        }
    }
    if with_shutdown {
        ctx.count("peers.shutdown_with_silent_connection");
    }
    ctx.fingerprint(format!("peers|{:?}|{:?}|{:?}|{}", order, keep_open, stalled_at, with_shutdown as u8), true);
}

/// `Channel::balance_list` over real loopback TCP with two TLS servers: every endpoint of a
/// balanced channel authenticates its server with ITS OWN TLS settings.  Server B presents a
/// perfectly good certificate, but the endpoint that leads to it is configured with roots (or a
/// name) under which that certificate must be refused — so no request may ever reach B's handlers,
/// while A (reached through a correctly configured endpoint) keeps serving.
fn balance_tls_case(ctx: &mut Ctx, i: u64) {
    use std::sync::atomic::Ordering::SeqCst;
    let variant = ["b-wrong-roots", "b-wrong-name", "both-good"][(i % 3) as usize];
    let bad_first = (i / 3) % 2 == 1;
    ctx.begin(variant, json!({"variant": variant, "misconfigured_endpoint_listed_first": bad_first}));
    let rt = match tokio::runtime::Builder::new_current_thread().enable_all().build() {
        Ok(rt) => rt,
        Err(_) => return,
    };
    let (ha, hb) = (Handler::new(), Handler::new());
    let (ha2, hb2) = (ha.clone(), hb.clone());
    let res: Result<(u64, u64, Vec<String>), (String, String)> = rt.block_on(async move {
        let limit = Duration::from_secs(20);
        let mut stops = Vec::new();
        let mut ports = Vec::new();
        for h in [ha2, hb2] {
            let l = match std::net::TcpListener::bind("127.0.0.1:0") {
                Ok(l) => l,
                Err(e) => return Err(("sockets-unavailable".to_string(), e.to_string())),
            };
            ports.push(l.local_addr().map_err(|e| ("sockets-unavailable".to_string(), e.to_string()))?.port());
            l.set_nonblocking(true).map_err(|e| ("sockets-unavailable".to_string(), e.to_string()))?;
            let l = tokio::net::TcpListener::from_std(l).map_err(|e| ("sockets-unavailable".to_string(), e.to_string()))?;
            let incoming = futures_util::stream::unfold(l, |l| async move {
                let r = l.accept().await.map(|(s, _)| s);
                Some((r, l))
            });
            let tls = ServerTlsConfig::new().identity(Identity::from_pem(SERVER_PEM, SERVER_KEY));
            let mut sb = Server::builder().tls_config(tls).map_err(|e| ("harness".to_string(), format!("server tls_config: {}", e)))?;
            let router = sb.add_service(VerifServer::new(h));
            let (tx, rx) = tokio::sync::oneshot::channel::<()>();
            let task = tokio::spawn(async move {
                let _ = router.serve_with_incoming_shutdown(incoming, async move { let _ = rx.await; }).await;
            });
            stops.push((task, tx));
        }
        let good = ClientTlsConfig::new().ca_certificate(Certificate::from_pem(CA1)).domain_name("verif.test");
        let for_b = match variant {
            "b-wrong-roots" => ClientTlsConfig::new().ca_certificate(Certificate::from_pem(CA2)).domain_name("verif.test"),
            "b-wrong-name" => ClientTlsConfig::new().ca_certificate(Certificate::from_pem(CA1)).domain_name("other.test"),
            _ => good.clone(),
        };
        let ep_a = Endpoint::from_shared(format!("https://127.0.0.1:{}", ports[0])).and_then(|e| e.tls_config(good)).map_err(|e| ("harness".to_string(), e.to_string()))?;
        let ep_b = Endpoint::from_shared(format!("https://127.0.0.1:{}", ports[1])).and_then(|e| e.tls_config(for_b)).map_err(|e| ("harness".to_string(), e.to_string()))?;
        let eps = if bad_first { vec![ep_b, ep_a] } else { vec![ep_a, ep_b] };
        let channel = tonic::transport::Channel::balance_list(eps.into_iter());
        let mut client = VerifClient::new(channel);
        let (mut oks, mut errs) = (0u64, 0u64);
        let mut codes = Vec::new();
        for n in 0..30u64 {
            match tokio::time::timeout(limit, client.unary(tonic::Request::new(Msg { data: vec![5; 6], seq: n, tag: String::new() }))).await {
                Err(_) => return Err(("hang".into(), format!("call {} on the balanced channel did not resolve within 20 s", n + 1))),
                Ok(Ok(_)) => oks += 1,
                Ok(Err(s)) => {
                    errs += 1;
                    codes.push(format!("{:?}", s.code()));
                }
            }
            tokio::time::sleep(Duration::from_millis(2)).await;
        }
        drop(client);
        for (task, tx) in stops {
            let _ = tx.send(());
            let _ = tokio::time::timeout(Duration::from_secs(10), task).await;
        }
        Ok((oks, errs, codes))
    });
    drop(rt);
    let (oks, errs, codes) = match res {
        Ok(x) => x,
        Err((d, w)) if d == "sockets-unavailable" => {
            ctx.count("balance.sockets_unavailable");
            let _ = w;
            return;
        }
        Err((d, w)) => {
            ctx.violation(&d, w);
            return;
        }
    };
    let (na, nb) = (ha.total_entered.load(SeqCst), hb.total_entered.load(SeqCst));
    if variant != "both-good" && nb != 0 {
        ctx.violation("handler-reached", format!("{} request(s) reached the server behind the endpoint whose own TLS settings ({}) must refuse its certificate; the other endpoint of the balanced channel is configured differently", nb, variant));
    }
    if na + nb != oks {
        ctx.violation("ok-without-handler", format!("{} calls returned Ok, the two handlers ran {} + {} times", oks, na, nb));
    }
    if oks == 0 {
        ctx.violation("failed-but-must-succeed", format!("none of 30 calls on the balanced channel succeeded although one endpoint is correctly configured and its server is up (errors: {:?})", codes.iter().take(5).collect::<Vec<_>>()));
    }
    if variant == "both-good" && errs != 0 {
        ctx.violation("failed-but-must-succeed", format!("{} of 30 calls failed although both endpoints are correctly configured ({:?})", errs, codes.iter().take(5).collect::<Vec<_>>()));
    }
    for c in &codes {
        ctx.distinct("balance.error_codes", c);
    }
    ctx.count(&format!("balance.{}", variant));
    ctx.add("observed.balance_calls_ok", oks);
    ctx.add("observed.balance_calls_failed", errs);
    ctx.fingerprint(format!("balance|{}|{}", variant, bad_first as u8), true);
}
