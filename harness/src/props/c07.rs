//! C07 — hostile or truncated input ends a stream with one error, never a hang or panic.
use crate::codec_drv::*;
use crate::ctx::*;
use crate::pb::{Msg, RawDecoder};
use crate::prng::Rng;
use crate::refc::*;
use crate::script::*;
use serde_json::json;
use tonic::codec::{BufferSettings, ProstCodec};

pub const MUTATIONS: &[&str] = &[
    "valid", "bitflip", "badflag", "flag1-no-encoding", "len-plus", "len-minus", "truncate", "splice",
    "dup-prefix", "garbage-payload", "bad-protobuf", "random", "huge-len", "over-limit", "body-error",
];

/// Lenient independent decompression (single member, trailing bytes tolerated) — the property is
/// about framing, so the oracle must not be stricter than any sane decompressor.
fn lenient_decompress(enc: Enc, data: &[u8]) -> Result<Vec<u8>, String> {
    use std::io::Read;
    let mut out = Vec::new();
    match enc {
        Enc::Gzip => {
            flate2::read::GzDecoder::new(data).read_to_end(&mut out).map_err(|e| e.to_string())?;
            Ok(out)
        }
        Enc::Deflate => {
            flate2::read::ZlibDecoder::new(data).read_to_end(&mut out).map_err(|e| e.to_string())?;
            Ok(out)
        }
        _ => ref_decompress(enc, data),
    }
}

#[derive(Debug)]
pub struct Expect {
    pub msgs: Vec<Vec<u8>>,
    pub wellformed: bool,
    pub why: String,
    /// protobuf judgement the small reference parser cannot make (groups etc.)
    pub undecided: bool,
}

pub fn expect(bytes: &[u8], enc: Enc, limit: usize, prost: bool) -> Expect {
    let mut e = Expect { msgs: vec![], wellformed: false, why: String::new(), undecided: false };
    let mut p = 0;
    loop {
        let rem = bytes.len() - p;
        if rem == 0 {
            e.wellformed = true;
            return e;
        }
        if rem < 5 {
            e.why = format!("{} stray bytes (partial prefix) at {}", rem, p);
            return e;
        }
        let flag = bytes[p];
        if !(flag == 0 || (flag == 1 && enc != Enc::Identity)) {
            e.why = format!("flag {} at {}", flag, p);
            return e;
        }
        let len = u32::from_be_bytes(bytes[p + 1..p + 5].try_into().unwrap()) as usize;
        if len > limit {
            e.why = format!("declared length {} over limit {}", len, limit);
            return e;
        }
        if rem - 5 < len {
            e.why = format!("payload truncated ({} of {})", rem - 5, len);
            return e;
        }
        let raw = &bytes[p + 5..p + 5 + len];
        let payload = if flag == 1 {
            match lenient_decompress(enc, raw) {
                Ok(d) => d,
                Err(err) => {
                    e.why = format!("undecompressable payload at {}: {}", p, err);
                    return e;
                }
            }
        } else {
            raw.to_vec()
        };
        if prost {
            if ref_pb_decode_msg(&payload).is_none() {
                // could be a genuine protobuf error or something the small parser does not model
                e.why = format!("payload at {} not decodable by the reference protobuf parser", p);
                e.undecided = pb_parse(&payload).is_none() && payload.iter().any(|b| b & 7 == 3 || b & 7 == 4);
                return e;
            }
        }
        e.msgs.push(payload);
        p += 5 + len;
    }
}

pub fn run(cfg: &RunCfg) -> Ctx {
    let mut all = Ctx::new();
    all.merge(par_cases(cfg, "decode", cfg.n(80_000, 16 * 900_000), || (), |_, rng, ctx, _| case(rng, ctx, None)));
    // truncation at every byte of small streams
    all.merge(par_cases(cfg, "truncate-all", cfg.n(120, 3000), || (), |_, rng, ctx, _| trunc_all(rng, ctx)));
    for m in MUTATIONS {
        all.floor(&format!("mut.{}", m), 3);
    }
    all.floor("dir.request", 10);
    all.floor("body.segmented_data", 10);
    all.floor("dir.response", 10);
    all.floor("observed.first_error_then_polled_again", 50);
    all
}

fn base_stream(rng: &mut Rng, enc: Enc, prost: bool, max: usize) -> (Vec<u8>, Vec<usize>) {
    let n = rng.urange(0, max);
    let mut wire = Vec::new();
    let mut starts = Vec::new();
    for i in 0..n {
        let size = if small() { *rng.pick(&[0usize, 1, 2, 5, 6, 20]) } else { *rng.pick(&[0usize, 1, 2, 5, 6, 20, 64, 300]) };
        let payload = if prost {
            let data = rng.payload(size);
            ref_pb_encode(&data, i as u64, if rng.bool() { "t" } else { "" })
        } else {
            rng.payload(size)
        };
        let compressed = enc != Enc::Identity && rng.chance(3, 4);
        starts.push(wire.len());
        if compressed {
            wire.extend(ref_frame(1, &ref_compress(enc, &payload)));
        } else {
            wire.extend(ref_frame(0, &payload));
        }
    }
    (wire, starts)
}

fn mutate(rng: &mut Rng, m: &str, wire: &mut Vec<u8>, starts: &[usize], enc: Enc, limit: usize) {
    let pick_start = |rng: &mut Rng| -> Option<usize> {
        if starts.is_empty() { None } else { Some(starts[rng.usize_below(starts.len())]) }
    };
    match m {
        "valid" | "body-error" => {}
        "bitflip" => {
            if !wire.is_empty() {
                for _ in 0..rng.urange(1, 3) {
                    let i = rng.usize_below(wire.len());
                    wire[i] ^= 1 << rng.below(8);
                }
            }
        }
        "badflag" => {
            let f = rng.range(2, 255) as u8;
            match pick_start(rng) {
                Some(s) => wire[s] = f,
                None => wire.extend(ref_frame(f, b"xy")),
            }
        }
        "flag1-no-encoding" => match pick_start(rng) {
            Some(s) => wire[s] = 1,
            None => wire.extend(ref_frame(1, b"xy")),
        },
        "len-plus" | "len-minus" => {
            if let Some(s) = pick_start(rng) {
                let len = u32::from_be_bytes(wire[s + 1..s + 5].try_into().unwrap());
                let d = rng.range(1, 9) as u32;
                let nl = if m == "len-plus" { len.wrapping_add(d) } else { len.saturating_sub(d) };
                wire[s + 1..s + 5].copy_from_slice(&nl.to_be_bytes());
            } else {
                wire.extend_from_slice(&[0, 0, 0, 0, 3, 1]);
            }
        }
        "truncate" => {
            if !wire.is_empty() {
                let at = rng.usize_below(wire.len());
                wire.truncate(at);
            } else {
                wire.extend_from_slice(&[0, 0]);
            }
        }
        "splice" => {
            let extra = rng.bytes_range(1, 12);
            let at = if wire.is_empty() { 0 } else { rng.usize_below(wire.len() + 1) };
            let tail = wire.split_off(at);
            wire.extend(extra);
            wire.extend(tail);
        }
        "dup-prefix" => {
            if let Some(s) = pick_start(rng) {
                let pre: Vec<u8> = wire[s..s + 5].to_vec();
                let tail = wire.split_off(s);
                wire.extend(pre);
                wire.extend(tail);
            } else {
                wire.extend_from_slice(&[0, 0, 0, 0, 0, 0, 0, 0, 0]);
            }
        }
        "garbage-payload" => {
            let g = rng.bytes_range(0, 40);
            let flag = if enc != Enc::Identity { 1 } else { 0 };
            let at = pick_start(rng).unwrap_or(wire.len());
            let tail = wire.split_off(at);
            wire.extend(ref_frame(flag, &g));
            wire.extend(tail);
        }
        "bad-protobuf" => {
            let mut g = rng.bytes_range(1, 30);
            if rng.bool() {
                // string field with invalid UTF-8 / truncated varint / wrong wire type
                g = match rng.below(3) {
                    0 => vec![0x1a, 2, 0xff, 0xfe],
                    1 => vec![0x10, 0x80, 0x80],
                    _ => vec![0x0a, 5, 1, 2],
                };
            }
            let flag = if enc != Enc::Identity && rng.bool() { 1 } else { 0 };
            let body = if flag == 1 { ref_compress(enc, &g) } else { g };
            let at = pick_start(rng).unwrap_or(wire.len());
            let tail = wire.split_off(at);
            wire.extend(ref_frame(flag, &body));
            wire.extend(tail);
        }
        "random" => {
            *wire = rng.bytes_range(0, 64);
            if rng.bool() && wire.len() >= 5 {
                wire[0] &= 1;
                wire[1] = 0;
                wire[2] = 0;
                wire[3] = 0;
            }
        }
        "huge-len" => {
            let len: u32 = match rng.below(4) {
                0 => u32::MAX,
                1 => 1 << 31,
                2 => (limit as u32).saturating_add(1),
                _ => rng.range(1 << 16, u32::MAX as u64) as u32,
            };
            wire.push(0);
            wire.extend_from_slice(&len.to_be_bytes());
            wire.extend(rng.bytes_range(0, 9));
        }
        "over-limit" => {
            let n = limit + rng.urange(1, 3);
            if n < 100_000 {
                wire.extend(ref_frame(0, &vec![7u8; n]));
            } else {
                wire.extend_from_slice(&[0]);
                wire.extend_from_slice(&(n as u32).to_be_bytes());
            }
        }
        _ => unreachable!(),
    }
}

fn case(rng: &mut Rng, ctx: &mut Ctx, forced: Option<(&str, Vec<u8>)>) {
    let enc = forced_enc().unwrap_or(*rng.pick(Enc::all()));
    let prost = rng.chance(1, 3);
    let request = rng.bool();
    let http = if request || rng.chance(3, 4) { 200 } else { *rng.pick(&[400u16, 404, 429, 500, 503]) };
    let limit_opt = match rng.below(4) {
        0 => Some(*rng.pick(&[0usize, 1, 5, 64, 300, 4096])),
        _ => None,
    };
    let limit = limit_opt.unwrap_or(4 * 1024 * 1024);
    let bs = *rng.pick(&[0usize, 1, 5, 64, 8192]);
    let (m, wire) = match forced {
        Some((m, w)) => (m.to_string(), w),
        None => {
            let m = *rng.pick(MUTATIONS);
            let (mut wire, starts) = base_stream(rng, enc, prost, 5);
            mutate(rng, m, &mut wire, &starts, enc, limit);
            (m.to_string(), wire)
        }
    };
    let m = m.as_str();
    // chunking + body script
    let style = *rng.pick(CUT_STYLES);
    let (frames, _) = ref_parse(&wire);
    let special: Vec<usize> = frames.iter().map(|f| f.start).collect();
    let cuts = cut_positions(rng, wire.len(), style, &special);
    let chunks = if wire.is_empty() { vec![] } else { split_at_cuts(&wire, &cuts) };
    let mut steps = body_steps(rng, chunks, rng.clone().below(2), 4, true);
    // trailers
    let trailers_kind = if request { rng.below(2) } else { rng.below(5) };
    let mut trailer_code: Option<i32> = None; // Some(code) if trailers carry a parseable status
    let mut trailers_garbage = false;
    match trailers_kind {
        0 | 1 => {}
        2 => {
            let mut t = http::HeaderMap::new();
            t.insert("grpc-status", "0".parse().unwrap());
            steps.push(BStep::Trailers(t));
            trailer_code = Some(0);
        }
        3 => {
            let code = rng.range(1, 16) as i32;
            let mut t = http::HeaderMap::new();
            t.insert("grpc-status", code.to_string().parse().unwrap());
            t.insert("grpc-message", "boom".parse().unwrap());
            steps.push(BStep::Trailers(t));
            trailer_code = Some(code);
        }
        _ => {
            let mut t = http::HeaderMap::new();
            let g: String = match rng.below(3) {
                0 => rng.pick(&["abc", "-1", "99", "", "1e3", "0x1", "00", "016", "256", "4294967296"]).to_string(),
                // every two-digit (and some three-digit) number above the last code
                _ => rng.range(17, 130).to_string(),
            };
            t.insert("grpc-status", g.parse().unwrap());
            steps.push(BStep::Trailers(t));
            trailers_garbage = true;
        }
    }
    // body error injection
    let mut injected: Option<tonic::Code> = None;
    let mut unfused = false;
    let mut delivered = wire.clone();
    if m == "body-error" || rng.chance(1, 12) {
        // an error after the trailers frame can never be observed: inject before it
        let upto = steps.iter().position(|s| matches!(s, BStep::Trailers(_))).unwrap_or(steps.len());
        let at = rng.usize_below(upto + 1);
        let code = *rng.pick(&[tonic::Code::Cancelled, tonic::Code::Internal, tonic::Code::Unavailable, tonic::Code::Unknown, tonic::Code::DeadlineExceeded]);
        if rng.bool() {
            // un-fused body: the scripted frames after the error are still there if polled again
            unfused = true;
            steps.insert(at, BStep::Err(code, "injected".into()));
        } else {
            steps.truncate(at);
            steps.push(BStep::Err(code, "injected".into()));
        }
        injected = Some(code);
        delivered = steps.iter().take(at).flat_map(|s| if let BStep::Data(d) = s { d.clone() } else { vec![] }).collect();
        if !steps.iter().take(at).any(|s| matches!(s, BStep::Trailers(_))) {
            trailer_code = None;
            trailers_garbage = false;
        }
    }
    let class = format!("{}-{}", m, if request { "req" } else { "resp" });
    let case_json = json!({"mutation": m, "enc": enc.name(), "codec": if prost {"prost"} else {"raw"}, "dir": if request {"request"} else {"response"},
        "limit": limit_opt, "buffer_size": bs, "wire": short(&wire), "wire_len": wire.len(), "cut_style": format!("{:?}", style), "cuts": cuts.len(),
        "trailers": trailers_kind, "http_status": http, "injected_body_error": injected.map(|c| format!("{:?}", c))});
    ctx.begin(&class, case_json.clone());
    ctx.count(&format!("mut.{}", m));
    ctx.count(if request { "dir.request" } else { "dir.response" });

    let exp = expect(&delivered, enc, limit, prost);
    let dir = if request { Dir::Request } else { Dir::Response(http) };
    let eager = rng.bool();
    if http != 200 {
        ctx.count("dir.response_non200");
    }

    // run and reduce to (yielded payload bytes, terminal kinds)
    // one case in three hands the same bytes over as non-contiguous buffers
    let segmented = rng.chance(1, 3);
    if segmented {
        ctx.count("body.segmented_data");
    }
    let (yielded, seq_kinds, first_err_code, stalled, budget, busy, after_end): (Vec<Vec<u8>>, Vec<u8>, Option<tonic::Code>, bool, bool, bool, usize) = crate::codec_drv::with_segmented(segmented, || if prost {
        let out = decode_run_opts(ProstCodec::<Msg, Msg>::raw_decoder(BufferSettings::new(bs, 32768)), steps, dir, enc, limit_opt, 8, eager, false, unfused);
        reduce(&out, |m: &Msg| ref_pb_encode(&m.data, m.seq, &m.tag))
    } else {
        let out = decode_run_opts(RawDecoder { bs: (bs, 32768) }, steps, dir, enc, limit_opt, 8, eager, false, unfused);
        reduce(&out, |m: &Vec<u8>| m.clone())
    });
    ctx.max("max.body_polls_after_end", after_end as u64);
    if stalled {
        ctx.violation("hang", "stream returned Pending with no wake-up registered (would hang)".into());
        return;
    }
    if budget {
        ctx.violation("poll-budget", "poll/item budget exhausted: stream never terminates".into());
        return;
    }
    if busy {
        ctx.violation("busy-loop", "body polled more than 64 times after it had ended".into());
    }
    // messages yielded are a prefix of the reference's well-framed messages
    let cmp_msgs: Vec<Vec<u8>> = if prost {
        // compare on canonical re-encoding of what the reference decodes
        exp.msgs.iter().map(|p| { let (d, s, t) = ref_pb_decode_msg(p).unwrap(); ref_pb_encode(&d, s, &t) }).collect()
    } else {
        exp.msgs.clone()
    };
    // prost may legitimately be stricter than the small reference parser on non-canonical
    // encodings (over-long varints, huge field numbers ...): only canonical payloads are judged
    // for "must not fail".
    let all_canonical = !prost || exp.msgs.iter().zip(&cmp_msgs).all(|(a, b)| a == b);
    let prefix_ok = yielded.len() <= cmp_msgs.len() && yielded.iter().zip(&cmp_msgs).all(|(a, b)| a == b);
    if !prefix_ok && !exp.undecided {
        ctx.violation("yielded-not-in-input", format!("yielded {} messages that are not a prefix of the {} well-framed messages of the input ({})", yielded.len(), cmp_msgs.len(), exp.why));
    }
    // terminal
    let first_term = seq_kinds.iter().position(|k| *k != 0);
    match first_term {
        None => ctx.violation("no-terminal", "stream neither ended nor failed".into()),
        Some(i) => {
            let kind = seq_kinds[i];
            let cancel_exception = request && injected == Some(tonic::Code::Cancelled);
            // a request body failing with CANCELLED is tonic's "client went away" = end of stream
            // (the body of a non-200 response need not be looked at at all: there only the body
            // error, the trailers and the HTTP status decide)
            let body_judged = request || http == 200;
            let must_fail = !cancel_exception && ((!exp.wellformed && body_judged) || injected.is_some()
                || (!request && injected.is_none() && (trailers_garbage || matches!(trailer_code, Some(c) if c != 0)))
                // a non-200 response without any grpc-status cannot be a success
                || (http != 200 && trailer_code.is_none() && !trailers_garbage));
            let may_fail = must_fail || cancel_exception || !all_canonical;
            if kind == 1 {
                // clean end
                if must_fail && !exp.undecided {
                    ctx.violation("clean-end-on-bad-input", format!("stream ended cleanly although: {}{}", exp.why,
                        if injected.is_some() { " [body error injected]" } else { "" }));
                }
                if !must_fail && body_judged && yielded.len() != cmp_msgs.len() && !cancel_exception {
                    ctx.violation("lost-messages", format!("clean end after {} of {} messages", yielded.len(), cmp_msgs.len()));
                }
            } else {
                // C07 is about what happens on hostile input; whether well-formed input may be
                // refused (a stricter receiver, a resource bound) and with which code is C01's /
                // C04's / C06's business: observed here, not judged
                if !may_fail && !exp.undecided {
                    ctx.count("observed.error_on_wellformed_input");
                }
                if exp.wellformed && all_canonical && injected.is_none() && !request {
                    if let (Some(tc), Some(got)) = (trailer_code, first_err_code) {
                        if tc != 0 && got as i32 != tc {
                            ctx.count("observed.error_code_differs_from_trailers");
                        }
                    }
                }
                ctx.count("observed.first_error_then_polled_again");
            }
            // finality
            let rest = &seq_kinds[i + 1..];
            if kind == 2 {
                if rest.iter().any(|k| *k == 2) {
                    ctx.violation("error-not-final", format!("an error was yielded again after the first error ({} more errors in {} further polls)", rest.iter().filter(|k| **k == 2).count(), rest.len()));
                } else if rest.iter().any(|k| *k == 0) {
                    ctx.violation("message-after-error", "a message was yielded after the first error".into());
                }
            } else if rest.iter().any(|k| *k != 1) {
                ctx.violation("item-after-end", "something was yielded after the clean end".into());
            }
            ctx.add("observed.polls_after_terminal", rest.len() as u64);
        }
    }
    let term = match first_term.map(|i| seq_kinds[i]) { Some(1) => "end", Some(2) => "err", _ => "none" };
    ctx.fingerprint(
        format!("{}|{}|{}|{}|{:?}|tr{}|inj{}|y{}|{}", m, enc.name(), if prost {"prost"} else {"raw"}, if request {"req"} else {"resp"}, style, trailers_kind, injected.is_some() as u8, yielded.len().min(3), term),
        m != "valid",
    );
    ctx.sample(case_json);
}

/// kinds: 0 message, 1 end, 2 error
fn reduce<T>(out: &DecOut<T>, f: impl Fn(&T) -> Vec<u8>) -> (Vec<Vec<u8>>, Vec<u8>, Option<tonic::Code>, bool, bool, bool, usize) {
    let mut yielded = Vec::new();
    let mut kinds = Vec::new();
    let mut code = None;
    let mut term = false;
    for it in &out.seq {
        match it {
            DItem::Msg(m) => {
                if !term {
                    yielded.push(f(m));
                }
                kinds.push(0);
            }
            DItem::End => {
                term = true;
                kinds.push(1);
            }
            DItem::Err(s) => {
                if !term {
                    code = Some(s.code());
                }
                term = true;
                kinds.push(2);
            }
        }
    }
    (yielded, kinds, code, out.stalled, out.budget, out.body.is_busy(), out.body.after_end())
}

fn trunc_all(rng: &mut Rng, ctx: &mut Ctx) {
    let enc = *rng.pick(Enc::all());
    let (wire, _) = base_stream(rng, enc, false, 3);
    // note: `case` draws its own enc; truncation of a stream built for another encoding is still
    // a legitimate hostile input (flags may then be invalid), so no coupling is needed.
    for at in 0..=wire.len() {
        let mut r2 = Rng::new(rng.u64());
        case(&mut r2, ctx, Some(("truncate", wire[..at].to_vec())));
        ctx.count("observed.truncation_points");
    }
}
