//! C17 — grpc-web client layer recovers messages and full trailers under any chunking.
use crate::ctx::*;
use crate::exec::{Exec, Out};
use crate::prng::Rng;
use crate::refc::*;
use crate::script::*;
use bytes::Bytes;
use http_body::Body;
use serde_json::json;
use std::sync::Arc;
use std::task::{Context, Poll};
use tonic_web::GrpcWebClientService;
use tower_service::Service;

/// Inner service: returns the scripted body, records the request it was given.
#[derive(Clone)]
struct Inner {
    steps: Arc<std::sync::Mutex<Option<Vec<BStep>>>>,
    stats: Arc<std::sync::Mutex<Option<Arc<BodyStats>>>>,
    seen: Arc<std::sync::Mutex<Option<(http::request::Parts, Vec<u8>)>>>,
}

impl<B> Service<http::Request<B>> for Inner
where
    B: Body + Send + 'static,
    B::Data: bytes::Buf,
{
    type Response = http::Response<crate::codec_drv::SegBody<ScriptBody>>;
    type Error = std::convert::Infallible;
    type Future = std::pin::Pin<Box<dyn std::future::Future<Output = Result<Self::Response, Self::Error>> + Send>>;
    fn poll_ready(&mut self, _: &mut Context<'_>) -> Poll<Result<(), Self::Error>> {
        Poll::Ready(Ok(()))
    }
    fn call(&mut self, req: http::Request<B>) -> Self::Future {
        let steps = self.steps.lock().unwrap().take().unwrap_or_default();
        let stats_slot = self.stats.clone();
        let seen = self.seen.clone();
        Box::pin(async move {
            use bytes::Buf;
            let (parts, body) = req.into_parts();
            let mut body = Box::pin(body);
            let mut data = Vec::new();
            loop {
                match std::future::poll_fn(|cx| body.as_mut().poll_frame(cx)).await {
                    Some(Ok(f)) => {
                        if let Ok(mut d) = f.into_data() {
                            while d.has_remaining() {
                                let c = d.chunk().to_vec();
                                d.advance(c.len());
                                data.extend_from_slice(&c);
                            }
                        }
                    }
                    _ => break,
                }
            }
            *seen.lock().unwrap() = Some((parts, data));
            let (sb, st) = ScriptBody::new(steps);
            *stats_slot.lock().unwrap() = Some(st);
            // the transport may hand its data over as non-contiguous buffers
            let mut resp = http::Response::new(crate::codec_drv::SegBody::new(sb, crate::codec_drv::SEGMENTED.with(|c| c.get())));
            resp.headers_mut().insert("content-type", "application/grpc-web+proto".parse().unwrap());
            Ok(resp)
        })
    }
}

pub fn gen_trailers(rng: &mut Rng) -> Vec<(String, Vec<u8>)> {
    let mut t: Vec<(String, Vec<u8>)> = vec![("grpc-status".into(), rng.range(0, 16).to_string().into_bytes())];
    if rng.bool() {
        let m = match rng.below(4) {
            0 => "a:b c".to_string(),
            1 => "plain".to_string(),
            2 => "x: y:z".to_string(),
            _ => crate::gen::gen_ascii_value(rng, false),
        };
        if !m.is_empty() {
            t.push(("grpc-message".into(), m.into_bytes()));
        }
    }
    for _ in 0..rng.below(4) {
        let k = if !t.is_empty() && rng.chance(1, 3) { t[rng.usize_below(t.len())].0.clone() } else { crate::gen::gen_key(rng, false) };
        if k == "grpc-status" {
            continue;
        }
        let mut v = crate::gen::gen_ascii_value(rng, false);
        if rng.chance(1, 3) {
            v.push_str(":tail");
        }
        if v.is_empty() || v.contains('\r') {
            v = "v".into();
        }
        // runs of inner blanks are part of a value (leading and trailing blanks are not: HTTP field
        // values never start or end with whitespace, RFC 9113 section 8.2.1)
        if rng.chance(1, 8) {
            v.push_str(*rng.pick(&["  x", " \t y", "a  b  c"]));
        }
        let mut vb = v.into_bytes();
        // header values may carry opaque octets (obs-text, 0x80..=0xff): a trailer value is bytes,
        // not text
        if rng.chance(1, 6) {
            let at = rng.usize_below(vb.len() + 1);
            vb.insert(at, 0x80 + rng.below(0x80) as u8);
            if rng.bool() {
                vb.push(0xff);
            }
        }
        t.push((k, vb));
    }
    if rng.chance(1, 3) {
        let j = rng.usize_below(t.len());
        t.swap(0, j);
    }
    t
}

/// Independent grpc-web body encoder: message frames then one 0x80 frame with the trailers block.
pub fn web_body(frames: &[(u8, Vec<u8>)], trailers: &[(String, Vec<u8>)], space_after_colon: bool) -> (Vec<u8>, Vec<usize>) {
    let mut v = Vec::new();
    let mut starts = Vec::new();
    for (f, p) in frames {
        starts.push(v.len());
        v.extend(ref_frame(*f, p));
    }
    starts.push(v.len());
    let mut block = Vec::new();
    for (k, val) in trailers {
        block.extend_from_slice(k.as_bytes());
        block.push(b':');
        if space_after_colon {
            block.push(b' ');
        }
        block.extend_from_slice(val);
        block.extend_from_slice(b"\r\n");
    }
    v.extend(ref_frame(0x80, &block));
    (v, starts)
}

pub fn run(cfg: &RunCfg) -> Ctx {
    let mut all = Ctx::new();
    all.merge(par_cases(cfg, "complete", cfg.n(20_000, 16 * 1_000_000), || (), |_, rng, ctx, _| complete_case(rng, ctx, false)));
    if !crate::ctx::small() {
        all.merge(par_cases(cfg, "allcuts", cfg.n(100, 4000), || (), |_, rng, ctx, _| complete_case(rng, ctx, true)));
    }
    all.merge(par_cases(cfg, "truncate", cfg.n(200, 8000), || (), |_, rng, ctx, _| truncate_case(rng, ctx)));
    all.merge(par_cases(cfg, "request", cfg.n(1200, 16 * 20_000), || (), |_, rng, ctx, _| request_case(rng, ctx)));
    for k in ["cut.inside_frame_header", "cut.inside_trailers_frame", "chunk.message_and_trailers_together", "chunk.segmented_buffers", "trailers.colon_in_value", "trailers.repeated_name", "trunc.inside_frame", "trunc.on_boundary", "observed.trailers_recovered"] {
        all.floor(k, 5);
    }
    all
}

struct Drained {
    data: Vec<u8>,
    trailers: Option<http::HeaderMap>,
    /// kinds in poll order: 'd' data, 't' trailers, 'e' error, 'n' none
    kinds: Vec<char>,
    err: Option<String>,
    stalled: bool,
    budget: bool,
    busy: bool,
    after_end: usize,
}

fn drive(steps: Vec<BStep>, extra: usize) -> Result<Drained, String> {
    let nsteps = steps.len();
    let inner = Inner { steps: Arc::new(std::sync::Mutex::new(Some(steps))), stats: Default::default(), seen: Default::default() };
    let stats_slot = inner.stats.clone();
    let mut svc = GrpcWebClientService::new(inner);
    let mut ex = Exec::new();
    let mut req = http::Request::new(http_body_util::Full::new(Bytes::from_static(b"\0\0\0\0\0")));
    *req.version_mut() = http::Version::HTTP_2;
    *req.method_mut() = http::Method::POST;
    let resp = match ex.block_on(10_000, svc.call(req)) {
        Out::Done(Ok(r)) => r,
        _ => return Err("inner call".into()),
    };
    let stats = stats_slot.lock().unwrap().clone().ok_or("no stats")?;
    let mut body = Box::pin(resp.into_body());
    let mut d = Drained { data: vec![], trailers: None, kinds: vec![], err: None, stalled: false, budget: false, busy: false, after_end: 0 };
    let mut extra_left = extra;
    let mut terminal = false;
    let budget = nsteps * 4 + 64;
    for _ in 0..(nsteps * 4 + 64 + extra) {
        match ex.drive(budget, |cx| body.as_mut().poll_frame(cx)) {
            Out::Done(Some(Ok(f))) => {
                if f.is_data() {
                    let b = f.into_data().ok().unwrap();
                    if !terminal {
                        d.data.extend_from_slice(&b);
                    }
                    d.kinds.push('d');
                } else {
                    if !terminal {
                        d.trailers = f.into_trailers().ok();
                    }
                    d.kinds.push('t');
                }
            }
            Out::Done(Some(Err(e))) => {
                if !terminal {
                    d.err = Some(format!("{:?}: {}", e.code(), e.message()));
                }
                d.kinds.push('e');
                terminal = true;
            }
            Out::Done(None) => {
                d.kinds.push('n');
                terminal = true;
            }
            Out::Stalled => {
                d.stalled = true;
                break;
            }
            Out::Budget => {
                d.budget = true;
                break;
            }
        }
        if terminal {
            if extra_left == 0 {
                break;
            }
            extra_left -= 1;
        }
    }
    d.busy = stats.is_busy();
    d.after_end = stats.after_end();
    Ok(d)
}

fn gen_frames(rng: &mut Rng, small: bool) -> Vec<(u8, Vec<u8>)> {
    let n = if small { rng.urange(0, 2) } else { rng.urange(0, 4) };
    (0..n)
        .map(|_| {
            let size = if small || crate::ctx::small() { *rng.pick(&[0usize, 1, 4, 9]) } else { *rng.pick(&[0usize, 1, 5, 100, 3000]) };
            ((rng.chance(1, 4)) as u8, rng.payload(size))
        })
        .collect()
}

fn always(ctx: &mut Ctx, d: &Drained) -> bool {
    if d.stalled {
        ctx.violation("hang", "body returned Pending with no wake-up (would hang)".into());
        return false;
    }
    if d.budget {
        ctx.violation("poll-budget", "poll budget exhausted: the body never terminates".into());
        return false;
    }
    if d.busy {
        ctx.violation("busy-loop", "inner body polled more than 64 times after it ended (busy loop)".into());
        return false;
    }
    // nothing but None after the end
    if let Some(i) = d.kinds.iter().position(|k| *k == 'n' || *k == 'e') {
        if d.kinds[i + 1..].iter().any(|k| *k != 'n') {
            ctx.violation("item-after-end", format!("frames after the end/error: {:?}", d.kinds));
        }
    }
    true
}

fn complete_case(rng: &mut Rng, ctx: &mut Ctx, all_cuts: bool) {
    // a third of the cases deliver every chunk as a non-contiguous buffer
    let segmented = rng.chance(1, 3);
    if segmented {
        ctx.count("chunk.segmented_buffers");
    }
    let frames = gen_frames(rng, all_cuts);
    let trailers = gen_trailers(rng);
    let space = rng.chance(1, 3);
    let (body, starts) = web_body(&frames, &trailers, space);
    let trailers_start = *starts.last().unwrap();
    let colon = trailers.iter().any(|(_, v)| v.contains(&b':'));
    let mut names: Vec<&String> = trailers.iter().map(|t| &t.0).collect();
    names.sort();
    let repeated = names.windows(2).any(|w| w[0] == w[1]);
    let mut cutsets: Vec<(String, Vec<usize>)> = Vec::new();
    if all_cuts {
        for c in 1..body.len() {
            cutsets.push(("single".into(), vec![c]));
        }
        let lim = body.len().min(30);
        for a in 1..lim {
            for b in a + 1..lim {
                cutsets.push(("double".into(), vec![a, b]));
            }
        }
        // and double cuts around the trailers frame
        for a in trailers_start.saturating_sub(2)..(trailers_start + 7).min(body.len()) {
            for b in a + 1..(trailers_start + 9).min(body.len()) {
                if a > 0 {
                    cutsets.push(("double-trailers".into(), vec![a, b]));
                }
            }
        }
    } else {
        let style = *rng.pick(CUT_STYLES);
        cutsets.push((format!("{:?}", style), cut_positions(rng, body.len(), style, &starts)));
    }
    for (style, cuts) in cutsets {
        let class = format!(
            "{}{}{}",
            if cuts.is_empty() { "one-chunk" } else if cuts.iter().any(|c| *c > trailers_start && *c < body.len()) { "cut-in-trailers-frame" } else if cuts.contains(&trailers_start) { "cut-before-trailers" } else { "cut-in-messages" },
            if colon { "+colon" } else { "" },
            if repeated { "+repeated" } else { "" }
        );
        let case_json = json!({"frames": frames.iter().map(|f| json!([f.0, f.1.len()])).collect::<Vec<_>>(), "trailers": trailers.iter().map(|(k, v)| json!([k, String::from_utf8_lossy(v)])).collect::<Vec<_>>(),
            "space_after_colon": space, "cuts": cuts, "cut_style": style, "body_len": body.len()});
        ctx.begin(&class, case_json.clone());
        if cuts.iter().any(|c| starts.iter().any(|s| c > s && *c < s + 5)) {
            ctx.count("cut.inside_frame_header");
        }
        if cuts.iter().any(|c| *c > trailers_start) {
            ctx.count("cut.inside_trailers_frame");
        }
        if !cuts.contains(&trailers_start) && !frames.is_empty() {
            ctx.count("chunk.message_and_trailers_together");
        }
        if colon {
            ctx.count("trailers.colon_in_value");
        }
        if repeated {
            ctx.count("trailers.repeated_name");
        }
        let chunks = split_at_cuts(&body, &cuts);
        let steps = body_steps(rng, chunks, 1, 4, false);
        let d = match crate::codec_drv::with_segmented(segmented, || drive(steps, 3)) {
            Ok(d) => d,
            Err(e) => {
                ctx.violation("harness", e);
                return;
            }
        };
        if !always(ctx, &d) {
            continue;
        }
        if let Some(e) = &d.err {
            ctx.violation("error-on-complete-body", format!("a complete, well-formed body produced an error: {}", e));
            continue;
        }
        if d.data != body[..trailers_start] {
            ctx.violation("message-bytes-differ", format!("message bytes: got {} bytes, expected {}", d.data.len(), trailers_start));
        }
        let want: MultiMap = {
            let mut m = MultiMap::new();
            for (k, v) in &trailers {
                m.entry(k.clone()).or_default().push(v.clone());
            }
            m
        };
        match &d.trailers {
            None => ctx.violation("trailers-lost", "no trailers were yielded".into()),
            Some(t) => {
                let got = headers_to_multimap(t);
                if got != want {
                    let bad: Vec<&String> = want.keys().filter(|k| got.get(*k) != want.get(*k)).collect();
                    let dev = if bad.iter().any(|k| got.get(*k).map(|v| v.len()) != want.get(*k).map(|v| v.len())) { "trailers-values-dropped" } else { "trailers-values-differ" };
                    ctx.violation(dev, format!("trailers differ on {:?}: got {:?}", bad, bad.iter().map(|k| got.get(*k).map(|vs| vs.iter().map(|v| String::from_utf8_lossy(v).to_string()).collect::<Vec<_>>())).collect::<Vec<_>>()));
                } else {
                    ctx.count("observed.trailers_recovered");
                }
            }
        }
        ctx.fingerprint(format!("complete|{}|n{}|t{}|{}", class, frames.len(), trailers.len().min(4), style), !frames.is_empty() && !cuts.is_empty());
        ctx.sample(case_json);
    }
}

fn truncate_case(rng: &mut Rng, ctx: &mut Ctx) {
    let segmented = rng.chance(1, 3);
    let frames = gen_frames(rng, true);
    let trailers = gen_trailers(rng);
    let (body, starts) = web_body(&frames, &trailers, false);
    let mut bounds: Vec<usize> = starts.clone();
    bounds.push(body.len());
    for at in 0..body.len() {
        let on_boundary = bounds.contains(&at);
        let in_trailers = at > *starts.last().unwrap();
        let class = if on_boundary { "boundary" } else if in_trailers { "inside-trailers-frame" } else if starts.iter().any(|s| at > *s && at < s + 5) { "inside-frame-header" } else { "inside-payload" };
        let case_json = json!({"frames": frames.iter().map(|f| json!([f.0, f.1.len()])).collect::<Vec<_>>(), "trailers_len": body.len() - starts.last().unwrap(), "truncated_at": at, "body_len": body.len()});
        ctx.begin(class, case_json.clone());
        ctx.count(if on_boundary { "trunc.on_boundary" } else { "trunc.inside_frame" });
        let style = *rng.pick(&[CutStyle::Whole, CutStyle::Small, CutStyle::Two, CutStyle::EveryByte]);
        let cuts = cut_positions(rng, at, style, &starts);
        let chunks = if at == 0 { vec![] } else { split_at_cuts(&body[..at], &cuts) };
        let steps = body_steps(rng, chunks, 1, 4, false);
        let d = match crate::codec_drv::with_segmented(segmented, || drive(steps, 3)) {
            Ok(d) => d,
            Err(e) => {
                ctx.violation("harness", e);
                return;
            }
        };
        if !always(ctx, &d) {
            continue;
        }
        if !on_boundary && d.err.is_none() {
            ctx.violation("clean-end-on-truncated-body", format!("body cut off {} ended cleanly after {} data bytes", class, d.data.len()));
        }
        // whatever was yielded must be a prefix of the message bytes
        let msg_end = *starts.last().unwrap();
        if !body[..msg_end.min(body.len())].starts_with(&d.data) && !d.data.is_empty() {
            ctx.violation("yielded-bytes-not-in-input", "data yielded is not a prefix of the message bytes".into());
        }
        ctx.fingerprint(format!("trunc|{}|{:?}|{}", class, style, if d.err.is_some() { "err" } else { "end" }), !on_boundary);
    }
    ctx.sample(json!({"frames": frames.len(), "body_len": body.len(), "truncation_points": body.len()}));
}

fn request_case(rng: &mut Rng, ctx: &mut Ctx) {
    // request direction: content-type application/grpc-web, version coerced, body bytes unchanged
    let body = rng.bytes_range(0, 300);
    let version = *rng.pick(&[http::Version::HTTP_11, http::Version::HTTP_2]);
    ctx.begin("request", json!({"body_len": body.len(), "version": format!("{:?}", version)}));
    let inner = Inner { steps: Arc::new(std::sync::Mutex::new(Some(vec![]))), stats: Default::default(), seen: Default::default() };
    let seen = inner.seen.clone();
    let mut svc = GrpcWebClientService::new(inner);
    let mut req = http::Request::new(http_body_util::Full::new(Bytes::from(body.clone())));
    *req.version_mut() = version;
    *req.method_mut() = http::Method::POST;
    *req.uri_mut() = "/pkg.S/M".parse().unwrap();
    req.headers_mut().insert("content-type", "application/grpc".parse().unwrap());
    req.headers_mut().insert("x-k", "v".parse().unwrap());
    let mut ex = Exec::new();
    match ex.block_on(10_000, svc.call(req)) {
        Out::Done(Ok(_)) => {}
        _ => {
            ctx.violation("hang", "request did not complete".into());
            return;
        }
    }
    let s = seen.lock().unwrap();
    let Some((parts, data)) = s.as_ref() else {
        ctx.violation("inner-not-called", "inner service not called".into());
        return;
    };
    if parts.headers.get("content-type").map(|v| v.as_bytes()) != Some(b"application/grpc-web") {
        ctx.violation("request-content-type", format!("{:?}", parts.headers.get("content-type")));
    }
    if parts.version == http::Version::HTTP_2 {
        ctx.violation("request-version", "HTTP/2 not coerced".into());
    }
    if data != &body {
        ctx.violation("request-body", "request body bytes changed".into());
    }
    if parts.headers.get("x-k").is_none() || parts.uri.path() != "/pkg.S/M" {
        ctx.violation("request-head", "request head altered".into());
    }
    ctx.fingerprint(format!("request|{:?}|{}", version, body.len().min(3)), !body.is_empty());
}
