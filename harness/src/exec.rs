//! Minimal poll-counting executor (no runtime; usable under Miri).
use std::future::Future;
use std::pin::Pin;
use std::sync::atomic::{AtomicUsize, Ordering};
use std::sync::Arc;
use std::task::{Context, Poll, Wake, Waker};

pub struct WakeCount(pub AtomicUsize);
impl Wake for WakeCount {
    fn wake(self: Arc<Self>) {
        self.0.fetch_add(1, Ordering::SeqCst);
    }
    fn wake_by_ref(self: &Arc<Self>) {
        self.0.fetch_add(1, Ordering::SeqCst);
    }
}

pub struct Exec {
    pub wc: Arc<WakeCount>,
    pub waker: Waker,
    pub polls: usize,
}

#[derive(Debug, PartialEq)]
pub enum Out<T> {
    Done(T),
    /// returned Pending and nobody woke us: would hang forever on a real executor
    Stalled,
    /// poll budget exhausted (busy loop across polls)
    Budget,
}

impl Exec {
    pub fn new() -> Self {
        let wc = Arc::new(WakeCount(AtomicUsize::new(0)));
        let waker = Waker::from(wc.clone());
        Exec { wc, waker, polls: 0 }
    }
    pub fn wakes(&self) -> usize {
        self.wc.0.load(Ordering::SeqCst)
    }
    /// One poll of a stream-like closure.
    pub fn poll_once<T>(&mut self, f: impl FnOnce(&mut Context<'_>) -> Poll<T>) -> Poll<T> {
        self.polls += 1;
        let mut cx = Context::from_waker(&self.waker);
        f(&mut cx)
    }
    /// Drive `f` until Ready, at most `budget` polls; Pending without a wake-up = Stalled.
    pub fn drive<T>(
        &mut self,
        budget: usize,
        mut f: impl FnMut(&mut Context<'_>) -> Poll<T>,
    ) -> Out<T> {
        let mut n = 0;
        loop {
            let before = self.wakes();
            match self.poll_once(&mut f) {
                Poll::Ready(v) => return Out::Done(v),
                Poll::Pending => {
                    if self.wakes() == before {
                        return Out::Stalled;
                    }
                }
            }
            n += 1;
            if n >= budget {
                return Out::Budget;
            }
        }
    }
    pub fn block_on<F: Future>(&mut self, budget: usize, fut: F) -> Out<F::Output> {
        let mut fut = Box::pin(fut);
        self.drive(budget, |cx| fut.as_mut().poll(cx))
    }
}

impl Default for Exec {
    fn default() -> Self {
        Self::new()
    }
}

pub fn pin_mut<T: Unpin>(t: &mut T) -> Pin<&mut T> {
    Pin::new(t)
}
