#![allow(clippy::all, non_camel_case_types)]
pub mod alloc;
pub mod codec_drv;
pub mod ctx;
pub mod exec;
pub mod gen;
pub mod pb;
pub mod prng;
pub mod refc;
pub mod script;
#[cfg(feature = "full")]
pub mod svc;
#[cfg(feature = "full")]
pub mod transport;
pub mod props;
