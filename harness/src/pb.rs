//! Harness message type, raw byte codec with arbitrary buffer settings, generated services.
use bytes::{Buf, BufMut};
use tonic::codec::{BufferSettings, Codec, DecodeBuf, Decoder, EncodeBuf, Encoder};
use tonic::Status;

#[derive(Clone, PartialEq, ::prost::Message)]
pub struct Msg {
    #[prost(bytes = "vec", tag = "1")]
    pub data: Vec<u8>,
    #[prost(uint64, tag = "2")]
    pub seq: u64,
    #[prost(string, tag = "3")]
    pub tag: String,
}

/// Opaque-bytes codec: payload on the wire is exactly the Vec<u8>.
#[derive(Clone, Copy, Debug)]
pub struct RawCodec {
    pub bs: (usize, usize),
}
#[derive(Clone, Copy, Debug)]
pub struct RawEncoder {
    pub bs: (usize, usize),
    /// write the payload in several put_slice calls (exercises EncodeBuf growth)
    pub piecewise: bool,
    /// hands the message over as one non-contiguous `Buf` (`BufMut::put(head.chain(tail))`)
    pub chained: bool,
}
#[derive(Clone, Copy, Debug)]
pub struct RawDecoder {
    pub bs: (usize, usize),
}

impl Encoder for RawEncoder {
    type Item = Vec<u8>;
    type Error = Status;
    fn encode(&mut self, item: Vec<u8>, dst: &mut EncodeBuf<'_>) -> Result<(), Status> {
        if self.chained && item.len() >= 2 {
            let (a, rest) = item.split_at(item.len() / 3);
            let (b, c) = rest.split_at(rest.len() / 2);
            dst.put(a.chain(b).chain(c));
        } else if self.piecewise {
            for c in item.chunks(7) {
                dst.put_slice(c);
            }
        } else {
            dst.reserve(item.len());
            dst.put_slice(&item);
        }
        Ok(())
    }
    fn buffer_settings(&self) -> BufferSettings {
        BufferSettings::new(self.bs.0, self.bs.1)
    }
}

/// Encoder whose items are *lengths*: a small one is written out, a huge one only claims address
/// space in the output buffer (nothing is touched, so a message above 4 GiB costs no memory).
#[derive(Clone, Copy, Debug)]
pub struct LenEncoder;
impl Encoder for LenEncoder {
    type Item = usize;
    type Error = Status;
    fn encode(&mut self, item: usize, dst: &mut EncodeBuf<'_>) -> Result<(), Status> {
        if item <= 4096 {
            dst.put_slice(&vec![0x07u8; item]);
        } else {
            dst.reserve(item);
            // the bytes are never read: the encoder refuses the message by its length
            unsafe { bytes::BufMut::advance_mut(dst, item) };
        }
        Ok(())
    }
    fn buffer_settings(&self) -> BufferSettings {
        BufferSettings::new(8192, 1 << 40)
    }
}

impl Decoder for RawDecoder {
    type Item = Vec<u8>;
    type Error = Status;
    fn decode(&mut self, src: &mut DecodeBuf<'_>) -> Result<Option<Vec<u8>>, Status> {
        let mut v = Vec::with_capacity(src.remaining());
        while src.has_remaining() {
            let c = src.chunk();
            let n = c.len();
            v.extend_from_slice(c);
            src.advance(n);
        }
        Ok(Some(v))
    }
    fn buffer_settings(&self) -> BufferSettings {
        BufferSettings::new(self.bs.0, self.bs.1)
    }
}

impl Codec for RawCodec {
    type Encode = Vec<u8>;
    type Decode = Vec<u8>;
    type Encoder = RawEncoder;
    type Decoder = RawDecoder;
    fn encoder(&mut self) -> RawEncoder {
        RawEncoder { bs: self.bs, piecewise: false, chained: false }
    }
    fn decoder(&mut self) -> RawDecoder {
        RawDecoder { bs: self.bs }
    }
}

#[cfg(feature = "full")]
pub mod verif {
    include!(concat!(env!("OUT_DIR"), "/main/verif.v1.Verif.rs"));
}

#[cfg(feature = "full")]
macro_rules! routing_mod {
    ($m:ident, $dir:literal) => {
        pub mod $m {
            include!(concat!(env!("OUT_DIR"), "/", $dir, "/svc.rs"));
        }
    };
}
#[cfg(feature = "full")]
pub mod routing {
    routing_mod!(r0, "r0");
    routing_mod!(r1, "r1");
    routing_mod!(r2, "r2");
    routing_mod!(r3, "r3");
    routing_mod!(r4, "r4");
    routing_mod!(r5, "r5");
    routing_mod!(r6, "r6");
    routing_mod!(r7, "r7");
    routing_mod!(r8, "r8");
    routing_mod!(r9, "r9");
    routing_mod!(r10, "r10");
    routing_mod!(r11, "r11");
}
