//! vcheck <ID> [--tier quick|thorough] [--seed N] [--threads N] [--replay FILE]
//!        [--only monitor:index] [--scale a/b] [--out FILE] [--no-evidence]
//! exit 0 held / 1 VIOLATION / 3 INCONCLUSIVE
use serde_json::{json, Value};
use std::time::{Duration, Instant};
use verif_harness::ctx::*;
use verif_harness::props;

#[cfg(not(miri))]
#[global_allocator]
static GLOBAL: verif_harness::alloc::Counting = verif_harness::alloc::Counting;

fn main() {
    #[cfg(not(miri))]
    verif_harness::alloc::INSTALLED.store(std::env::var("VERIF_NO_ALLOC_TRACK").is_err(), std::sync::atomic::Ordering::SeqCst);
    let args: Vec<String> = std::env::args().collect();
    if args.len() < 2 {
        eprintln!("usage: vcheck <ID> [--tier quick|thorough] [--seed N] ...");
        std::process::exit(2);
    }
    let id = args[1].clone();
    let mut tier = std::env::var("VERIF_TIER").unwrap_or_else(|_| "quick".into());
    let mut seed: u64 = std::env::var("VERIF_SEED")
        .ok()
        .and_then(|s| s.parse().ok())
        .unwrap_or(1);
    let mut threads = std::thread::available_parallelism().map(|n| n.get()).unwrap_or(4).min(16);
    let mut only = None;
    let mut scale = (1u64, 1u64);
    let mut out_path = format!("{}/{}.json", std::env::var("VERIF_EVIDENCE_DIR").unwrap_or_else(|_| "/verif/evidence".into()), id);
    let mut write_evidence = true;
    let mut verbose = false;
    let mut budget_s: Option<u64> = None;
    let mut leg = String::new();
    let mut no_floors = false;
    let mut i = 2;
    while i < args.len() {
        let a = args[i].as_str();
        let mut val = || {
            i += 1;
            args.get(i).cloned().unwrap_or_else(|| {
                eprintln!("missing value for {}", a);
                std::process::exit(2)
            })
        };
        match a {
            "--tier" => tier = val(),
            "--seed" => seed = val().parse().expect("seed"),
            "--threads" => threads = val().parse().expect("threads"),
            "--only" => {
                let v = val();
                let (m, ix) = v.rsplit_once(':').expect("monitor:index");
                only = Some((m.to_string(), ix.parse().expect("index")));
            }
            "--replay" => {
                let p = val();
                let txt = std::fs::read_to_string(&p).expect("replay file");
                let v: Value = serde_json::from_str(&txt).expect("replay json");
                seed = v["seed"].as_u64().expect("seed");
                tier = v["tier"].as_str().unwrap_or("quick").to_string();
                only = Some((v["monitor"].as_str().expect("monitor").to_string(), v["index"].as_u64().expect("index")));
                write_evidence = false;
                verbose = true;
            }
            "--scale" => {
                let v = val();
                let (a, b) = v.split_once('/').expect("a/b");
                scale = (a.parse().unwrap(), b.parse().unwrap());
            }
            "--out" => out_path = val(),
            "--leg" => leg = val(),
            "--no-evidence" => write_evidence = false,
            "--no-floors" => no_floors = true,
            "--verbose" => verbose = true,
            "--budget" => budget_s = Some(val().parse().unwrap()),
            _ => {
                eprintln!("unknown arg {}", a);
                std::process::exit(2);
            }
        }
        i += 1;
    }
    let thorough = tier == "thorough";
    let cfg = RunCfg {
        property: id.clone(),
        thorough,
        seed,
        threads,
        scale_num: scale.0,
        scale_den: scale.1,
        only: only.clone(),
        verbose,
        started: Instant::now(),
        soft_budget: Duration::from_secs(budget_s.unwrap_or(if thorough { 1500 } else { 240 })),
    };
    install_panic_hook();
    let Some(spec) = props::lookup(&id) else {
        eprintln!("unknown property {}", id);
        std::process::exit(2);
    };
    let mut ctx = (spec.run)(&cfg);
    let wall = cfg.started.elapsed().as_secs_f64();
    if only.is_some() {
        ctx.inconclusive.clear(); // floors are meaningless for a single replayed case
    }
    if no_floors {
        // reduced sanitizer legs (Miri / memcheck) re-run a small slice of the workload: coverage
        // floors belong to the main run
        ctx.inconclusive.retain(|r| !r.starts_with("coverage floor"));
    }
    if ctx.budget_cut {
        ctx.inconclusive.retain(|_| true);
    }

    // known findings
    let vroot = std::env::var("VERIF_ROOT").unwrap_or_else(|_| "/verif".into());
    let kf_txt = std::fs::read_to_string(format!("{}/known_findings.json", vroot)).unwrap_or_else(|_| "{\"findings\":[]}".into());
    let kf: Value = serde_json::from_str(&kf_txt).expect("known_findings.json");
    let known: Vec<(String, String)> = kf["findings"]
        .as_array()
        .map(|a| {
            a.iter()
                .filter(|f| f["property"] == id.as_str() && f["status"] == "known")
                .map(|f| (f["signature"].as_str().unwrap_or("").to_string(), f["what"].as_str().unwrap_or("").to_string()))
                .collect()
        })
        .unwrap_or_default();

    let mut new_violations = 0;
    let mut known_hits = 0;
    std::fs::create_dir_all(format!("{}/replays", vroot)).ok();
    for (sig, v) in &ctx.violations {
        if let Some((_, what)) = known.iter().find(|(s, _)| s == sig) {
            println!("KNOWN-FINDING: property={} {} {} (seen {}x this run)", id, sig, what, v.count);
            known_hits += 1;
            continue;
        }
        new_violations += 1;
        let slug: String = sig.chars().map(|c| if c.is_ascii_alphanumeric() { c } else { '_' }).collect();
        let path = format!("{}/replays/{}-{}-s{}.json", vroot, id, slug, seed);
        let rep = json!({"property": id, "signature": sig, "monitor": v.monitor, "seed": seed, "tier": tier, "index": v.index,
            "what": v.what, "count": v.count, "case": v.case});
        std::fs::write(&path, serde_json::to_string_pretty(&rep).unwrap()).ok();
        println!("VIOLATION property={} replay={}", id, path);
        println!("  signature: {}\n  what: {}\n  seen: {}x, first at {}:{}", sig, v.what, v.count, v.monitor, v.index);
        if verbose {
            println!("  case: {}", v.case);
        }
    }

    // evidence
    let distinct_nontrivial = ctx.nontrivial.len() as u64;
    let mut cov = json!({
        "evaluations": ctx.evals,
        "distinct_nontrivial": distinct_nontrivial,
        "distinct_fingerprints": ctx.fingerprints.len(),
        "rule": spec.rule,
        "samples": ctx.samples,
        "observed": ctx.counters,
        "distinct_observed": ctx.distinct_sets.iter().map(|(k, v)| (k.clone(), v.len())).collect::<std::collections::BTreeMap<_, _>>(),
        "exhaustive": spec.exhaustive,
        "budget_cut": ctx.budget_cut,
        "known_findings_hit": known_hits,
        "inconclusive_reasons": ctx.inconclusive,
    });
    if !leg.is_empty() {
        cov["leg"] = json!(leg);
    }
    let mut top: Vec<(&String, &u64)> = ctx.fingerprints.iter().collect();
    top.sort_by(|a, b| b.1.cmp(a.1));
    cov["fingerprint_examples"] = json!(top.iter().take(8).map(|(k, v)| json!({"fp": k, "n": v})).collect::<Vec<_>>());
    let ev = json!({
        "property_id": id,
        "tier": tier,
        "seed": seed,
        "level": spec.level,
        "coverage": cov,
        "assumptions": spec.assumptions,
        "wall_s": wall,
        "violations": new_violations,
    });
    if write_evidence {
        if let Some(dir) = std::path::Path::new(&out_path).parent() {
            std::fs::create_dir_all(dir).ok();
        }
        std::fs::write(&out_path, serde_json::to_string_pretty(&ev).unwrap()).expect("write evidence");
    }
    println!(
        "{} {} seed={} evaluations={} distinct_nontrivial={} fingerprints={} violations={} known={} wall={:.1}s",
        id, tier, seed, ctx.evals, distinct_nontrivial, ctx.fingerprints.len(), new_violations, known_hits, wall
    );
    if verbose {
        for (k, v) in &ctx.counters {
            println!("  {} = {}", k, v);
        }
    }
    if new_violations > 0 {
        std::process::exit(1);
    }
    if !ctx.inconclusive.is_empty() {
        for r in &ctx.inconclusive {
            println!("INCONCLUSIVE property={} reason={}", id, r);
        }
        std::process::exit(3);
    }
    if only.is_none() && !no_floors && (ctx.evals == 0 || distinct_nontrivial < 2) {
        println!("INCONCLUSIVE property={} reason=observed too little (evals={}, distinct_nontrivial={})", id, ctx.evals, distinct_nontrivial);
        std::process::exit(3);
    }
    std::process::exit(0);
}
