//! Scripted schedulers: an http Body and a message Stream that replay a script of
//! Ready/Pending/Err steps, count how they are polled, and turn "polled forever after the end"
//! into an observable flag instead of a hung process.
use crate::prng::Rng;
use bytes::Bytes;
use http::HeaderMap;
use http_body::{Body, Frame};
use std::pin::Pin;
use std::sync::atomic::{AtomicBool, AtomicUsize, Ordering};
use std::sync::Arc;
use std::task::{Context, Poll};
use tonic::Status;

#[derive(Clone, Debug)]
pub enum BStep {
    Data(Vec<u8>),
    Trailers(HeaderMap),
    Err(tonic::Code, String),
    Pending,
}

#[derive(Default, Debug)]
pub struct BodyStats {
    pub polls: AtomicUsize,
    pub polls_after_end: AtomicUsize,
    pub max_after_end_run: AtomicUsize,
    pub busy: AtomicBool,
    pub ended: AtomicBool,
    pub dropped: AtomicBool,
    pub data_steps_delivered: AtomicUsize,
}

impl BodyStats {
    pub fn after_end(&self) -> usize {
        self.polls_after_end.load(Ordering::SeqCst)
    }
    pub fn is_busy(&self) -> bool {
        self.busy.load(Ordering::SeqCst)
    }
    pub fn polled(&self) -> usize {
        self.polls.load(Ordering::SeqCst)
    }
}

/// Polls allowed after the end before the body declares a busy loop and parks the caller.
pub const AFTER_END_LIMIT: usize = 64;

pub struct ScriptBody {
    steps: std::vec::IntoIter<BStep>,
    pub stats: Arc<BodyStats>,
    /// report `is_end_stream() == true` once the script is exhausted (hyper does this for
    /// bodies whose END_STREAM flag has been seen)
    pub eager_end: bool,
    /// an un-fused body: keeps delivering the scripted steps that follow an Err step
    pub continue_after_err: bool,
    remaining: usize,
    /// bodies that know their length up front (a content-length header, `Full`, a file): when
    /// set, `size_hint()` reports exactly the DATA bytes the script still holds
    pub hint: Option<u64>,
}

impl ScriptBody {
    pub fn new(steps: Vec<BStep>) -> (Self, Arc<BodyStats>) {
        let stats = Arc::new(BodyStats::default());
        let remaining = steps.len();
        let total: u64 = steps.iter().map(|s| if let BStep::Data(d) = s { d.len() as u64 } else { 0 }).sum();
        let pend = steps.iter().filter(|s| matches!(s, BStep::Pending)).count() as u64;
        // decided by the script's content, so that a replay of one case sees the same body
        let hint = if (steps.len() as u64 * 7 + total * 13 + pend) % 3 == 0 { Some(total) } else { None };
        (
            ScriptBody {
                steps: steps.into_iter(),
                stats: stats.clone(),
                eager_end: false,
                continue_after_err: false,
                remaining,
                hint,
            },
            stats,
        )
    }
}

impl Drop for ScriptBody {
    fn drop(&mut self) {
        self.stats.dropped.store(true, Ordering::SeqCst);
    }
}

impl Body for ScriptBody {
    type Data = Bytes;
    type Error = Status;

    fn poll_frame(
        mut self: Pin<&mut Self>,
        cx: &mut Context<'_>,
    ) -> Poll<Option<Result<Frame<Bytes>, Status>>> {
        self.stats.polls.fetch_add(1, Ordering::SeqCst);
        if self.stats.ended.load(Ordering::SeqCst) {
            let n = self.stats.polls_after_end.fetch_add(1, Ordering::SeqCst) + 1;
            if n > AFTER_END_LIMIT {
                self.stats.busy.store(true, Ordering::SeqCst);
                // park without waking: a busy loop in the code under test becomes a stall
                return Poll::Pending;
            }
            return Poll::Ready(None);
        }
        match self.steps.next() {
            None => {
                self.stats.ended.store(true, Ordering::SeqCst);
                Poll::Ready(None)
            }
            Some(step) => {
                self.remaining -= 1;
                match step {
                    BStep::Pending => {
                        cx.waker().wake_by_ref();
                        Poll::Pending
                    }
                    BStep::Data(d) => {
                        self.stats.data_steps_delivered.fetch_add(1, Ordering::SeqCst);
                        if let Some(h) = self.hint.as_mut() {
                            *h -= d.len() as u64;
                        }
                        Poll::Ready(Some(Ok(Frame::data(Bytes::from(d)))))
                    }
                    BStep::Trailers(t) => Poll::Ready(Some(Ok(Frame::trailers(t)))),
                    BStep::Err(code, msg) => {
                        // an errored body is finished: further polls count as after-end
                        if !self.continue_after_err {
                            self.stats.ended.store(true, Ordering::SeqCst);
                        }
                        Poll::Ready(Some(Err(Status::new(code, msg))))
                    }
                }
            }
        }
    }

    fn is_end_stream(&self) -> bool {
        self.eager_end && self.remaining == 0
    }

    fn size_hint(&self) -> http_body::SizeHint {
        match self.hint {
            Some(h) => http_body::SizeHint::with_exact(h),
            None => http_body::SizeHint::default(),
        }
    }
}

#[derive(Clone, Debug)]
pub enum SStep<T> {
    Item(T),
    Err(tonic::Code, String),
    Pending,
}

#[derive(Default, Debug)]
pub struct SourceStats {
    pub polls: AtomicUsize,
    pub polls_after_end: AtomicUsize,
    pub items_taken: AtomicUsize,
}

pub struct ScriptSource<T> {
    steps: std::vec::IntoIter<SStep<T>>,
    pub stats: Arc<SourceStats>,
    ended: bool,
    /// streams that know their length (`tokio_stream::iter`, `empty()`): exact `size_hint()`
    items_left: Option<usize>,
}

impl<T> ScriptSource<T> {
    pub fn new(steps: Vec<SStep<T>>) -> (Self, Arc<SourceStats>) {
        let stats = Arc::new(SourceStats::default());
        let items = steps.iter().filter(|s| !matches!(s, SStep::Pending)).count();
        let items_left = if steps.len() % 3 == 0 { Some(items) } else { None };
        (
            ScriptSource {
                steps: steps.into_iter(),
                stats: stats.clone(),
                ended: false,
                items_left,
            },
            stats,
        )
    }
}

impl<T: Unpin> tokio_stream::Stream for ScriptSource<T> {
    type Item = Result<T, Status>;
    fn poll_next(mut self: Pin<&mut Self>, cx: &mut Context<'_>) -> Poll<Option<Self::Item>> {
        self.stats.polls.fetch_add(1, Ordering::SeqCst);
        if self.ended {
            self.stats.polls_after_end.fetch_add(1, Ordering::SeqCst);
            return Poll::Ready(None);
        }
        match self.steps.next() {
            None => {
                self.ended = true;
                Poll::Ready(None)
            }
            Some(SStep::Pending) => {
                cx.waker().wake_by_ref();
                Poll::Pending
            }
            Some(SStep::Item(t)) => {
                self.stats.items_taken.fetch_add(1, Ordering::SeqCst);
                if let Some(n) = self.items_left.as_mut() {
                    *n -= 1;
                }
                Poll::Ready(Some(Ok(t)))
            }
            Some(SStep::Err(c, m)) => {
                if let Some(n) = self.items_left.as_mut() {
                    *n -= 1;
                }
                Poll::Ready(Some(Err(Status::new(c, m))))
            }
        }
    }
    fn size_hint(&self) -> (usize, Option<usize>) {
        match self.items_left {
            Some(n) if !self.ended => (n, Some(n)),
            Some(_) => (0, Some(0)),
            None => (0, None),
        }
    }
}

/// How to cut a byte string into chunks.
#[derive(Clone, Copy, Debug, PartialEq, Eq)]
pub enum CutStyle {
    Whole,
    EveryByte,
    Uniform,   // random cut points
    Small,     // chunks of 1..=7
    AtSpecial, // exactly at given special positions (frame starts / prefix ends)
    InsideSpecial, // 1..4 bytes after each special position (inside prefixes)
    Two,       // exactly one cut
}

pub const CUT_STYLES: &[CutStyle] = &[
    CutStyle::Whole,
    CutStyle::EveryByte,
    CutStyle::Uniform,
    CutStyle::Small,
    CutStyle::AtSpecial,
    CutStyle::InsideSpecial,
    CutStyle::Two,
];

/// Returns sorted, deduplicated cut positions strictly inside (0, len).
pub fn cut_positions(rng: &mut Rng, len: usize, style: CutStyle, special: &[usize]) -> Vec<usize> {
    let mut cuts: Vec<usize> = Vec::new();
    if len < 2 {
        return cuts;
    }
    match style {
        CutStyle::Whole => {}
        CutStyle::EveryByte => {
            if len <= 4096 {
                cuts.extend(1..len);
            } else {
                // keep it bounded: every byte of the first 2 KiB then uniform
                cuts.extend(1..2048);
                for _ in 0..64 {
                    cuts.push(rng.urange(2048, len - 1));
                }
            }
        }
        CutStyle::Uniform => {
            let n = rng.urange(1, 12);
            for _ in 0..n {
                cuts.push(rng.urange(1, len - 1));
            }
        }
        CutStyle::Small => {
            let mut p = 0;
            let mut guard = 0;
            while p < len && guard < 5000 {
                p += rng.urange(1, 7);
                if p < len {
                    cuts.push(p);
                }
                guard += 1;
            }
            if guard >= 5000 {
                // long tail delivered whole
            }
        }
        CutStyle::AtSpecial => {
            for &s in special {
                if s > 0 && s < len {
                    cuts.push(s);
                }
            }
        }
        CutStyle::InsideSpecial => {
            for &s in special {
                let p = s + rng.urange(1, 4);
                if p > 0 && p < len {
                    cuts.push(p);
                }
                if rng.bool() {
                    let q = s + 5 + rng.urange(0, 3);
                    if q > 0 && q < len {
                        cuts.push(q);
                    }
                }
            }
        }
        CutStyle::Two => cuts.push(rng.urange(1, len - 1)),
    }
    cuts.sort_unstable();
    cuts.dedup();
    cuts
}

pub fn split_at_cuts(bytes: &[u8], cuts: &[usize]) -> Vec<Vec<u8>> {
    let mut out = Vec::with_capacity(cuts.len() + 1);
    let mut prev = 0;
    for &c in cuts {
        out.push(bytes[prev..c].to_vec());
        prev = c;
    }
    out.push(bytes[prev..].to_vec());
    out
}

/// Build body steps from chunks, sprinkling Pending with probability p_num/p_den and
/// occasionally empty DATA frames (legal in HTTP/2).
pub fn body_steps(
    rng: &mut Rng,
    chunks: Vec<Vec<u8>>,
    pend_num: u64,
    pend_den: u64,
    empty_frames: bool,
) -> Vec<BStep> {
    let mut steps = Vec::new();
    for c in chunks {
        while rng.chance(pend_num, pend_den) {
            steps.push(BStep::Pending);
        }
        if empty_frames && rng.chance(1, 10) {
            steps.push(BStep::Data(Vec::new()));
        }
        steps.push(BStep::Data(c));
    }
    while rng.chance(pend_num, pend_den) {
        steps.push(BStep::Pending);
    }
    steps
}
