//! Counting allocator: records, per thread and inside an explicit scope, the largest single
//! allocation request and the peak of live bytes allocated in the scope.  Used by C06 to observe
//! "refused before memory is reserved".  Pass-through to the system allocator otherwise.
use std::alloc::{GlobalAlloc, Layout, System};
use std::cell::Cell;

pub struct Counting;

thread_local! {
    static ACTIVE: Cell<bool> = const { Cell::new(false) };
    static MAX_SINGLE: Cell<usize> = const { Cell::new(0) };
    static TOTAL: Cell<usize> = const { Cell::new(0) };
    static COUNT: Cell<usize> = const { Cell::new(0) };
}

#[inline]
fn note(size: usize) {
    // try_with: thread-local may be gone during thread teardown
    let _ = ACTIVE.try_with(|a| {
        if a.get() {
            let _ = MAX_SINGLE.try_with(|m| {
                if size > m.get() {
                    m.set(size)
                }
            });
            let _ = TOTAL.try_with(|t| t.set(t.get().saturating_add(size)));
            let _ = COUNT.try_with(|c| c.set(c.get() + 1));
        }
    });
}

unsafe impl GlobalAlloc for Counting {
    unsafe fn alloc(&self, l: Layout) -> *mut u8 {
        note(l.size());
        System.alloc(l)
    }
    unsafe fn dealloc(&self, p: *mut u8, l: Layout) {
        System.dealloc(p, l)
    }
    unsafe fn alloc_zeroed(&self, l: Layout) -> *mut u8 {
        note(l.size());
        System.alloc_zeroed(l)
    }
    unsafe fn realloc(&self, p: *mut u8, l: Layout, new: usize) -> *mut u8 {
        note(new);
        System.realloc(p, l, new)
    }
}

#[derive(Debug, Clone, Copy)]
pub struct AllocStats {
    pub max_single: usize,
    pub total: usize,
    pub count: usize,
}

/// Run `f` with allocation tracking on for the current thread.
pub fn measure<T>(f: impl FnOnce() -> T) -> (T, AllocStats) {
    MAX_SINGLE.with(|m| m.set(0));
    TOTAL.with(|m| m.set(0));
    COUNT.with(|m| m.set(0));
    ACTIVE.with(|a| a.set(true));
    struct Off;
    impl Drop for Off {
        fn drop(&mut self) {
            ACTIVE.with(|a| a.set(false));
        }
    }
    let _off = Off;
    let r = f();
    ACTIVE.with(|a| a.set(false));
    let st = AllocStats {
        max_single: MAX_SINGLE.with(|m| m.get()),
        total: TOTAL.with(|m| m.get()),
        count: COUNT.with(|m| m.get()),
    };
    (r, st)
}

/// True when the counting allocator is the process allocator (set by the binary).
pub static INSTALLED: std::sync::atomic::AtomicBool = std::sync::atomic::AtomicBool::new(false);
