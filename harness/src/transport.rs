//! In-memory byte pipe that fragments reads/writes, injects Pending, can be killed (peer reset)
//! and taps the first bytes; used to run the real `Endpoint`/`Channel` against the real `Server`
//! on a paused tokio clock.
use crate::prng::Rng;
use crate::svc::EventLog;
use std::collections::VecDeque;
use std::io;
use std::pin::Pin;
use std::sync::{Arc, Mutex};
use std::task::{Context, Poll, Waker};
use tokio::io::{AsyncRead, AsyncWrite, ReadBuf};

#[derive(Clone, Copy, Debug)]
pub struct PipeCfg {
    pub max_read: usize,
    pub max_write: usize,
    /// probability (num/den) of an injected Pending before an operation that could progress
    pub pend_num: u64,
    pub pend_den: u64,
    pub capacity: usize,
    /// written bytes are held back until the writer flushes (or 8 KiB have piled up), the way a
    /// `BufWriter` or a record-oriented stream behaves: a transport user that forgets to flush stalls
    pub flush_gated: bool,
}

impl PipeCfg {
    pub fn gen(rng: &mut Rng) -> Self {
        let small = rng.bool();
        PipeCfg {
            max_read: if small { *rng.pick(&[1usize, 2, 3, 7, 16]) } else { *rng.pick(&[64usize, 1024, 65536]) },
            max_write: if rng.bool() { *rng.pick(&[1usize, 3, 9, 17]) } else { *rng.pick(&[100usize, 4096, 65536]) },
            pend_num: rng.below(3),
            pend_den: 4,
            capacity: *rng.pick(&[64usize, 1024, 65536]),
            flush_gated: rng.chance(1, 3),
        }
    }
    pub fn plain() -> Self {
        PipeCfg { max_read: 65536, max_write: 65536, pend_num: 0, pend_den: 1, capacity: 1 << 20, flush_gated: false }
    }
}

#[derive(Default)]
struct Dir {
    buf: VecDeque<u8>,
    /// flush-gated pipes: written but not yet flushed
    staged: Vec<u8>,
    read_waker: Option<Waker>,
    write_waker: Option<Waker>,
    writer_closed: bool,
    reader_dropped: bool,
    total: u64,
}

struct Shared {
    dirs: [Dir; 2], // dirs[0]: A->B, dirs[1]: B->A
    killed: bool,
    rng: Rng,
    cfg: PipeCfg,
    tap: [Vec<u8>; 2], // first bytes written by A, by B
    dropped: [bool; 2],
    reads: u64,
    writes: u64,
    pendings: u64,
    discarded: u64,
}

#[derive(Clone)]
pub struct PipeHandle {
    shared: Arc<Mutex<Shared>>,
    pub id: String,
}

pub struct PipeEnd {
    shared: Arc<Mutex<Shared>>,
    side: usize,
    pended_r: bool,
    pended_w: bool,
    pub id: String,
    log: Option<EventLog>,
}

pub fn pipe(id: &str, cfg: PipeCfg, rng: Rng, log: Option<EventLog>) -> (PipeEnd, PipeEnd, PipeHandle) {
    let shared = Arc::new(Mutex::new(Shared {
        dirs: [Dir::default(), Dir::default()],
        killed: false,
        rng,
        cfg,
        tap: [Vec::new(), Vec::new()],
        dropped: [false, false],
        reads: 0,
        writes: 0,
        pendings: 0,
        discarded: 0,
    }));
    (
        PipeEnd { shared: shared.clone(), side: 0, pended_r: false, pended_w: false, id: id.to_string(), log: log.clone() },
        PipeEnd { shared: shared.clone(), side: 1, pended_r: false, pended_w: false, id: id.to_string(), log },
        PipeHandle { shared, id: id.to_string() },
    )
}

impl PipeHandle {
    /// Peer reset: both directions fail from now on and every parked reader/writer is woken
    /// (what a FIN/RST does to a real socket).
    pub fn kill(&self) {
        let mut s = self.shared.lock().unwrap();
        s.killed = true;
        for d in s.dirs.iter_mut() {
            if let Some(w) = d.read_waker.take() {
                w.wake();
            }
            if let Some(w) = d.write_waker.take() {
                w.wake();
            }
        }
    }
    /// first bytes written by side A (client) / B (server)
    pub fn tap(&self, side: usize) -> Vec<u8> {
        self.shared.lock().unwrap().tap[side].clone()
    }
    pub fn both_dropped(&self) -> bool {
        let s = self.shared.lock().unwrap();
        s.dropped[0] && s.dropped[1]
    }
    pub fn dropped(&self, side: usize) -> bool {
        self.shared.lock().unwrap().dropped[side]
    }
    /// Decode the tapped bytes of one side as HTTP/2 frames (debugging aid).
    pub fn h2_frames(&self, side: usize) -> Vec<String> {
        let t = self.tap(side);
        let mut p = if side == 0 && t.starts_with(b"PRI * HTTP/2.0") { 24 } else { 0 };
        let mut out = Vec::new();
        while p + 9 <= t.len() {
            let len = ((t[p] as usize) << 16) | ((t[p + 1] as usize) << 8) | t[p + 2] as usize;
            let ty = t[p + 3];
            let flags = t[p + 4];
            let sid = u32::from_be_bytes([t[p + 5] & 0x7f, t[p + 6], t[p + 7], t[p + 8]]);
            let name = ["DATA", "HEADERS", "PRIORITY", "RST_STREAM", "SETTINGS", "PUSH_PROMISE", "PING", "GOAWAY", "WINDOW_UPDATE", "CONTINUATION"].get(ty as usize).copied().unwrap_or("?");
            let mut extra = String::new();
            if p + 9 + len <= t.len() {
                let pl = &t[p + 9..p + 9 + len];
                if ty == 8 && len == 4 {
                    extra = format!(" inc={}", u32::from_be_bytes([pl[0] & 0x7f, pl[1], pl[2], pl[3]]));
                }
                if ty == 4 {
                    for c in pl.chunks(6) {
                        if c.len() == 6 {
                            extra.push_str(&format!(" {}={}", u16::from_be_bytes([c[0], c[1]]), u32::from_be_bytes([c[2], c[3], c[4], c[5]])));
                        }
                    }
                }
                if ty == 3 && len == 4 {
                    extra = format!(" code={}", u32::from_be_bytes([pl[0], pl[1], pl[2], pl[3]]));
                }
            } else {
                extra = " (incomplete)".into();
            }
            out.push(format!("{} len={} flags={:#x} stream={}{}", name, len, flags, sid, extra));
            p += 9 + len;
        }
        if p < t.len() {
            out.push(format!("(partial frame header/tail: {} bytes)", t.len() - p));
        }
        out
    }
    pub fn debug(&self) -> String {
        let s = self.shared.lock().unwrap();
        format!(
            "{}: a->b buf={} rw={} ww={} closed={} total={} | b->a buf={} rw={} ww={} closed={} total={} | killed={} dropped={:?}",
            self.id, s.dirs[0].buf.len(), s.dirs[0].read_waker.is_some(), s.dirs[0].write_waker.is_some(), s.dirs[0].writer_closed, s.dirs[0].total,
            s.dirs[1].buf.len(), s.dirs[1].read_waker.is_some(), s.dirs[1].write_waker.is_some(), s.dirs[1].writer_closed, s.dirs[1].total, s.killed, s.dropped
        )
    }
    pub fn stats(&self) -> (u64, u64, u64, u64) {
        let s = self.shared.lock().unwrap();
        (s.reads, s.writes, s.pendings, s.dirs[0].total + s.dirs[1].total)
    }
}

impl AsyncRead for PipeEnd {
    fn poll_read(mut self: Pin<&mut Self>, cx: &mut Context<'_>, buf: &mut ReadBuf<'_>) -> Poll<io::Result<()>> {
        let side = self.side;
        let pended = self.pended_r;
        let mut guard = self.shared.lock().unwrap();
        let s = &mut *guard;
        if s.killed {
            return Poll::Ready(Err(io::Error::new(io::ErrorKind::ConnectionReset, "verif pipe killed")));
        }
        let inc = 1 - side; // incoming direction index: side0 reads dirs[1], side1 reads dirs[0]
        let cfg = s.cfg;
        if s.dirs[inc].buf.is_empty() {
            if s.dirs[inc].writer_closed {
                return Poll::Ready(Ok(())); // EOF
            }
            s.dirs[inc].read_waker = Some(cx.waker().clone());
            return Poll::Pending;
        }
        if !pended && cfg.pend_num > 0 && s.rng.chance(cfg.pend_num, cfg.pend_den) {
            s.pendings += 1;
            drop(guard);
            self.pended_r = true;
            cx.waker().wake_by_ref();
            return Poll::Pending;
        }
        let want = s.rng.urange(1, cfg.max_read.max(1));
        let n = want.min(s.dirs[inc].buf.len()).min(buf.remaining());
        for _ in 0..n {
            let b = s.dirs[inc].buf.pop_front().unwrap();
            buf.put_slice(&[b]);
        }
        s.reads += 1;
        if let Some(w) = s.dirs[inc].write_waker.take() {
            w.wake();
        }
        drop(guard);
        self.pended_r = false;
        Poll::Ready(Ok(()))
    }
}

impl AsyncWrite for PipeEnd {
    fn poll_write(mut self: Pin<&mut Self>, cx: &mut Context<'_>, data: &[u8]) -> Poll<io::Result<usize>> {
        let side = self.side;
        let pended = self.pended_w;
        let mut guard = self.shared.lock().unwrap();
        let s = &mut *guard;
        if s.killed {
            return Poll::Ready(Err(io::Error::new(io::ErrorKind::BrokenPipe, "verif pipe killed")));
        }
        let out = side; // side0 writes dirs[0], side1 writes dirs[1]
        if s.dirs[out].writer_closed {
            return Poll::Ready(Err(io::Error::new(io::ErrorKind::BrokenPipe, "verif pipe: write after shutdown")));
        }
        if s.dirs[out].reader_dropped {
            // Benign network model: the peer closed in an orderly way (no RST).  Like TCP, the
            // write is accepted locally and the bytes go nowhere; data the peer wrote before
            // closing stays readable on this side.  (A reset is modelled separately by `kill`.)
            s.discarded += data.len() as u64;
            return Poll::Ready(Ok(data.len()));
        }
        if data.is_empty() {
            return Poll::Ready(Ok(0));
        }
        let cfg = s.cfg;
        let space = cfg.capacity.saturating_sub(s.dirs[out].buf.len());
        if space == 0 {
            s.dirs[out].write_waker = Some(cx.waker().clone());
            return Poll::Pending;
        }
        if !pended && cfg.pend_num > 0 && s.rng.chance(cfg.pend_num, cfg.pend_den) {
            s.pendings += 1;
            drop(guard);
            self.pended_w = true;
            cx.waker().wake_by_ref();
            return Poll::Pending;
        }
        let want = s.rng.urange(1, cfg.max_write.max(1));
        let n = want.min(space).min(data.len());
        if cfg.flush_gated {
            s.dirs[out].staged.extend_from_slice(&data[..n]);
            if s.dirs[out].staged.len() >= 8192 {
                let st = std::mem::take(&mut s.dirs[out].staged);
                s.dirs[out].buf.extend(st);
            }
        } else {
            s.dirs[out].buf.extend(&data[..n]);
        }
        s.dirs[out].total += n as u64;
        let tap_cap = if std::env::var("VERIF_DUMP").is_ok() { 1 << 20 } else { 64 };
        if s.tap[side].len() < tap_cap {
            let room = tap_cap - s.tap[side].len();
            s.tap[side].extend_from_slice(&data[..n.min(room)]);
        }
        s.writes += 1;
        if let Some(w) = s.dirs[out].read_waker.take() {
            w.wake();
        }
        drop(guard);
        self.pended_w = false;
        Poll::Ready(Ok(n))
    }
    fn poll_flush(self: Pin<&mut Self>, _: &mut Context<'_>) -> Poll<io::Result<()>> {
        let mut s = self.shared.lock().unwrap();
        let out = self.side;
        if !s.dirs[out].staged.is_empty() {
            let st = std::mem::take(&mut s.dirs[out].staged);
            s.dirs[out].buf.extend(st);
            if let Some(w) = s.dirs[out].read_waker.take() {
                w.wake();
            }
        }
        Poll::Ready(Ok(()))
    }
    fn poll_shutdown(self: Pin<&mut Self>, _: &mut Context<'_>) -> Poll<io::Result<()>> {
        let mut s = self.shared.lock().unwrap();
        let out = self.side;
        if !s.dirs[out].staged.is_empty() {
            let st = std::mem::take(&mut s.dirs[out].staged);
            s.dirs[out].buf.extend(st);
        }
        s.dirs[out].writer_closed = true;
        if let Some(w) = s.dirs[out].read_waker.take() {
            w.wake();
        }
        Poll::Ready(Ok(()))
    }
}

impl Drop for PipeEnd {
    fn drop(&mut self) {
        let mut s = self.shared.lock().unwrap();
        let side = self.side;
        s.dropped[side] = true;
        s.dirs[side].writer_closed = true;
        s.dirs[1 - side].reader_dropped = true;
        for d in s.dirs.iter_mut() {
            if let Some(w) = d.read_waker.take() {
                w.wake();
            }
            if let Some(w) = d.write_waker.take() {
                w.wake();
            }
        }
        drop(s);
        if let Some(l) = &self.log {
            l.push(if side == 0 { "client_io_dropped" } else { "conn_closed" }, &self.id, "");
        }
    }
}

impl tonic::transport::server::Connected for PipeEnd {
    type ConnectInfo = tonic::transport::server::TcpConnectInfo;
    fn connect_info(&self) -> Self::ConnectInfo {
        tonic::transport::server::TcpConnectInfo { local_addr: None, remote_addr: Some(([10, 0, 0, 1], 4242).into()) }
    }
}

/// Build a current-thread runtime with a paused clock.
pub fn paused_rt() -> tokio::runtime::Runtime {
    tokio::runtime::Builder::new_current_thread().enable_time().start_paused(true).build().expect("verif-harness-bug: runtime")
}

/// Let every other task run until all are blocked (paused clock: a 1 ms sleep only completes
/// when the runtime is otherwise idle).
pub async fn quiesce() {
    tokio::time::sleep(std::time::Duration::from_millis(1)).await;
}
