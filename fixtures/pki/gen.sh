#!/usr/bin/env bash
# Regenerates the throw-away PKI used by the C15 monitor (committed; 2020-2120 validity).
set -e
O=${OPENSSL:-/root/miniconda/bin/openssl}
mkca() { # name CN
  $O ecparam -name prime256v1 -genkey -noout -out $1.key.sec1
  $O pkcs8 -topk8 -nocrypt -in $1.key.sec1 -out $1.key; rm $1.key.sec1
  $O req -x509 -new -key $1.key -subj "/CN=$2" -not_before 20200101000000Z -not_after 21200101000000Z \
     -addext "basicConstraints=critical,CA:TRUE" -addext "keyUsage=critical,keyCertSign,cRLSign" -out $1.pem
}
mkleaf() { # name CN ca san eku
  $O ecparam -name prime256v1 -genkey -noout -out $1.key.sec1
  $O pkcs8 -topk8 -nocrypt -in $1.key.sec1 -out $1.key; rm $1.key.sec1
  $O req -new -key $1.key -subj "/CN=$2" -out $1.csr
  printf "basicConstraints=CA:FALSE\nkeyUsage=critical,digitalSignature\nextendedKeyUsage=$5\nsubjectAltName=$4\n" > $1.ext
  $O x509 -req -in $1.csr -CA $3.pem -CAkey $3.key -CAcreateserial -not_before 20200101000000Z -not_after 21200101000000Z -extfile $1.ext -out $1.pem
  rm $1.csr $1.ext
}
mkca ca1 "verif server CA 1"
mkca ca2 "verif server CA 2"
mkca cca1 "verif client CA 1"
mkca cca2 "verif client CA 2"
mkleaf server "verif.test" ca1 "DNS:verif.test" serverAuth
mkleaf client1 "client one" cca1 "DNS:client.one" clientAuth
mkleaf client2 "client two" cca2 "DNS:client.two" clientAuth
rm -f *.srl
# a client whose identity is a chain: leaf issued by an intermediate CA under cca1 (client3.pem = leaf + intermediate)
$O ecparam -name prime256v1 -genkey -noout -out ccai.key.sec1; $O pkcs8 -topk8 -nocrypt -in ccai.key.sec1 -out ccai.key; rm ccai.key.sec1
$O req -new -key ccai.key -subj "/CN=verif client intermediate CA" -out ccai.csr
printf "basicConstraints=critical,CA:TRUE,pathlen:0\nkeyUsage=critical,keyCertSign,cRLSign\n" > ccai.ext
$O x509 -req -in ccai.csr -CA cca1.pem -CAkey cca1.key -CAcreateserial -not_before 20200101000000Z -not_after 21200101000000Z -extfile ccai.ext -out ccai.pem
rm ccai.csr ccai.ext
mkleaf client3 "client three" ccai "DNS:client.three" clientAuth
cat ccai.pem >> client3.pem
rm -f *.srl
