#!/usr/bin/env bash
# tools/confirm_seed.sh <ID> <mN> [--no-suite]
# Confirms a sub-agent's seeded change in the scratch worktree /tmp/wt-confirm (never /repo):
#  demo passes on the unchanged tree, fails with the patch; patched tree compiles and the existing
#  suite still passes (214 + the known failure).  Writes /tmp/seedout/<ID>/<mN>/confirm.json
set -u
ID="$1"; M="$2"; SUITE=1; [ "${3:-}" = "--no-suite" ] && SUITE=0
D=/tmp/seedout/$ID/$M
W=${CONFIRM_WT:-/tmp/wt-confirm}
export CARGO_TARGET_DIR=$W/target CARGO_NET_OFFLINE=true
if [ ! -d $W ]; then git -C /repo worktree add -q --detach $W HEAD || exit 9; fi
cd $W || exit 9
git checkout -q --detach "$(git -C /repo rev-parse HEAD)" 2>/dev/null
git checkout -- . ; git clean -fdq -e target
dest=$(python3 -c "import json;print(json.load(open('$D/meta.json'))['demo_dest'])")
cmd=$(python3 -c "import json;print(json.load(open('$D/meta.json'))['demo_cmd'])")
cmd=$(echo "$cmd" | sed -E 's/CARGO_TARGET_DIR=[^ ]+ //')
mkdir -p "$(dirname "$dest")"; cp "$D/demo.rs" "$dest"
echo "[confirm $ID/$M] demo on unchanged tree: $cmd"
( eval "$cmd" ) > $D/confirm_clean.log 2>&1; rc_clean=$?
git apply "$D/patch.diff" || { echo '{"applies": false}' > $D/confirm.json; git checkout -- .; git clean -fdq -e target; exit 8; }
echo "[confirm $ID/$M] demo with patch"
( eval "$cmd" ) > $D/confirm_patched.log 2>&1; rc_patched=$?
rm -f "$dest"
suite_pass=-1; suite_fail=-1; suite_failed_names=""
if [ $SUITE -eq 1 ]; then
  echo "[confirm $ID/$M] existing suite with patch"
  cargo nextest run --workspace --no-fail-fast --test-threads 8 --offline > $D/confirm_suite.log 2>&1
  suite_pass=$(grep -Eo '[0-9]+ passed' $D/confirm_suite.log | tail -1 | grep -Eo '[0-9]+')
  suite_fail=$(grep -Eo '[0-9]+ failed' $D/confirm_suite.log | tail -1 | grep -Eo '[0-9]+')
  suite_failed_names=$(grep -E '^\s+FAIL ' $D/confirm_suite.log | sed -E 's/.*\) //' | sort -u | tr '\n' ';')
fi
git checkout -- . ; git clean -fdq -e target
python3 - <<PY
import json
json.dump({"applies": True, "demo_rc_unchanged": $rc_clean, "demo_rc_patched": $rc_patched,
  "suite_passed": ${suite_pass:--1}, "suite_failed": ${suite_fail:--1}, "suite_failed_names": "$suite_failed_names",
  "confirmed": ($rc_clean == 0 and $rc_patched != 0 and (${suite_pass:--1} in (-1, 214)) and "$suite_failed_names" in ("", "integration-tests::connection connect_handles_tls;"))},
  open("$D/confirm.json","w"), indent=1)
print(open("$D/confirm.json").read())
PY
