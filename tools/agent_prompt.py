#!/usr/bin/env python3
"""Prints the prompt given to a mutation sub-agent for property <id> (property text only)."""
import json, sys
pid = sys.argv[1]
n = sys.argv[2] if len(sys.argv) > 2 else "2"
rnd = sys.argv[3] if len(sys.argv) > 3 else "1"
wt = f"/tmp/wt-{pid}" if rnd == "1" else f"/tmp/wt-{pid}-r{rnd}"
outd = f"/tmp/seedout/{pid}" if rnd == "1" else f"/tmp/seedout/{pid}-r{rnd}"
p = [json.loads(l) for l in open('/verif/properties.jsonl') if json.loads(l)['id'] == pid][0]
hint = ""
if rnd not in ("1", "2", "3"):
    hint = "Ordinary paths and the obvious boundary values were covered in earlier rounds. Prefer changes that only manifest under a rarely used PUBLIC configuration option, builder method, constructor or API entry point of the crates involved (look through the public API of the anchored modules for options the everyday examples never set), or through the INTERACTION of two features (for example a builder option combined with a particular call shape, a second connection, a cloned client, a non-default runtime flavour), or only for a particular ORDER of otherwise ordinary operations.\n\n"
prior = ""
if rnd != "1":
    import glob
    sums = []
    for f in sorted(glob.glob(f"/verif/seeded/{pid}/*/meta.json")):
        try:
            sums.append(json.load(open(f)).get("summary", ""))
        except Exception:
            pass
    if sums:
        prior = "Changes already produced in earlier rounds (do NOT repeat these or close variants of them; pick different functions, mechanisms, inputs or configurations):\n" + "".join(f"  - {x}\n" for x in sums if x) + "\nDo NOT use `git stash` (it is shared between worktrees and other agents work in sibling worktrees); use `git diff > file`, `git apply`, `git apply -R` and `git checkout -- .` instead.\n\n"
print(f"""You are helping test a verification framework by producing realistic *property-breaking* code changes ("seeded bugs") for the Rust gRPC library hyperium/tonic (version 0.13.0 snapshot).

Your private scratch git worktree of the repository is at {wt} (already created; work ONLY there; never touch /repo or /verif, never read anything under /verif). The machine is offline: always pass --offline to cargo, and set CARGO_TARGET_DIR={wt}/target for every cargo command so build output stays inside your worktree. 16 cores are shared with other jobs, so prefer `cargo test -p <crate> --offline` on the crates you touch over whole-workspace builds.

The property (this is all you are told about what the framework checks):

  Title: {p['title']}
  Statement: {p['statement']}
  Quantified over: {p['quantifier']['text']}

Task: produce {n} DIFFERENT, independent changes (each in a different function or mechanism, so that they do not overlap) to tonic's source (library code under tonic/, tonic-web/, tonic-health/, tonic-reflection/, tonic-types/, tonic-build/ as relevant — not tests, not examples) each of which
  (a) makes the property above false for the real code,
  (b) still compiles (whole workspace: `cargo build --workspace --offline` is not required, but every crate you touched and the crates under tests/ that depend on it must compile), and
  (c) still passes the existing test suite (run at least `cargo test -p <touched crate> --offline` plus the relevant integration crates: tests/integration_tests (package `integration-tests`), tests/compression (package `compression`), tests/web (package `test_web`) when they exercise the code you changed). Note: the test `connect_handles_tls` in integration-tests already fails on the unchanged tree (expired certs / no network); ignore it.
  (d) is *subtle*: it must need something specific to manifest — a particular interleaving or readiness pattern, a crash or fault at a particular point, a multi-step sequence of operations, an unusual input or boundary value, a particular configuration, or two cooperating sites that each look fine alone. Do NOT produce a change that ordinary use (a plain unary call with default settings and a small message) would expose at once. Think like a plausible regression a maintainer could introduce in a refactor or "optimisation".

For each change i (1..{n}) deliver, under {outd}/m<i>/ :
  - patch.diff : `git diff` of the change against the worktree's HEAD (apply-able with `git apply` at the repository root). Keep each patch minimal.
  - a demonstration: a self-contained Rust test file demo.rs together with a README.md saying exactly where to put it and how to run it (for example: "copy to tonic/tests/demo.rs (or tests/integration_tests/tests/demo.rs) and run `cargo test -p tonic --test demo --offline`"). The demonstration must FAIL with the change applied and PASS without it. It should use only public APIs of the tonic crates (and dev-dependencies the target crate already has).
  - meta.json : {{"property": "{pid}", "summary": "<one line>", "needs": "<what specific input / schedule / configuration / sequence is needed for it to manifest>", "files": [..], "demo_dest": "<path relative to the repository root where demo.rs must be copied, e.g. tests/integration_tests/tests/demo_{pid}_m1.rs>", "demo_cmd": "<exact cargo command that runs only the demo, e.g. cargo test -p integration-tests --test demo_{pid}_m1 --offline>", "tests_run": ["<commands you ran and their result>"]}}

{prior}{hint}Work one change at a time: edit, build, run existing tests, write demo, confirm demo fails with the change, `git apply -R`/`git checkout -- .` to confirm demo passes without it, save patch.diff, then reset the worktree (`git checkout -- . && git clean -fd -e target`) before the next change. Leave the worktree clean (no uncommitted changes other than target/) when you finish. Do not commit anything.

Finish with a short report: for each change, one paragraph on what it breaks and what it needs to manifest, and the exact commands you used to confirm (b), (c) and the demo's fail/pass behaviour. If you could not confirm something, say so plainly.""")
