#!/usr/bin/env bash
# tools/try_neutral.sh <ID> <nK> [ids...] — apply a property-preserving change to /repo, run the quick
# tier of the given checks (default: all 20), ALWAYS revert.  Output: /tmp/neutral/<ID>/<nK>/sweep.log
ID="$1"; N="$2"; shift 2
ND="${NEUTRAL_DIR:-/tmp/neutral}"
IDS="${*:-C01 C02 C03 C04 C05 C06 C07 C08 C09 C10 C11 C12 C13 C14 C15 C16 C17 C18 C19 C20}"
cd /verif
tools/try_seed.sh $ND/$ID/$N/patch.diff quick $IDS > $ND/$ID/$N/sweep.log 2>&1
echo "== $ID/$N: $(grep -c '^== .* rc=0' $ND/$ID/$N/sweep.log) silent, alarms: $(grep -E '^== .* rc=[1-9]' $ND/$ID/$N/sweep.log | awk '{print $2":"$4}' | tr '\n' ' ')"
