#!/usr/bin/env python3
"""Prints the prompt given to a sub-agent asked for property-PRESERVING changes (false-alarm probes) for property <id>."""
import json, sys
pid = sys.argv[1]
n = sys.argv[2] if len(sys.argv) > 2 else "3"
rnd = sys.argv[3] if len(sys.argv) > 3 else "1"
wt = f"/tmp/wt-{pid}-n" if rnd == "1" else f"/tmp/wt-{pid}-n{rnd}"
outd = f"/tmp/neutral/{pid}" if rnd == "1" else f"/tmp/neutral{rnd}/{pid}"
prior = ""
if rnd != "1":
    import glob
    sums = []
    for f in sorted(glob.glob(f"/verif/neutral/{pid}/*/meta.json") + glob.glob(f"/verif/neutral/round2/{pid}/*/meta.json") + glob.glob(f"/verif/neutral/round3/{pid}/*/meta.json")):
        try:
            sums.append(json.load(open(f)).get("summary", ""))
        except Exception:
            pass
    if sums:
        prior = "Changes already produced in an earlier round (do NOT repeat these or close variants; pick different functions, mechanisms, options or observable effects):\n" + "".join(f"  - {x}\n" for x in sums if x) + "\nThis round, prefer changes around rarely used public options, constructors and entry points of the crates involved (different builder call orders, cloned clients/servers, non-default configuration, alternative transports or runtimes, error and shutdown paths, what happens to inputs just OUTSIDE what the statement quantifies over), and changes of timing, polling, task structure or resource use - always keeping the statement true.\n\n"
p = [json.loads(l) for l in open('/verif/properties.jsonl') if json.loads(l)['id'] == pid][0]
print(f"""You are helping test a verification framework for the Rust gRPC library hyperium/tonic (version 0.13.0 snapshot). The framework claims to decide one semantic property of the library and must NEVER raise an alarm on code where that property still holds. Your job is to produce realistic code changes that KEEP the property true, so that we can check the framework stays silent on them.

Your private scratch git worktree of the repository is at {wt} (already created; work ONLY there; never touch /repo or /verif, never read anything under /verif). The machine is offline: always pass --offline to cargo, and set CARGO_TARGET_DIR={wt}/target for every cargo command so build output stays inside your worktree. 16 cores are shared with other jobs, so prefer `cargo test -p <crate> --offline` on the crates you touch over whole-workspace builds. Do NOT use `git stash` (the stash is shared between worktrees of the same repository and other agents are working in sibling worktrees); use `git diff > file`, `git apply`, `git apply -R` and `git checkout -- .` instead.

The property (this is all you are told about what the framework checks):

  Title: {p['title']}
  Statement: {p['statement']}
  Quantified over: {p['quantifier']['text']}

Task: produce {n} DIFFERENT, independent changes to tonic's library source (under tonic/, tonic-web/, tonic-health/, tonic-reflection/, tonic-types/, tonic-build/ as relevant — not tests, not examples), all of them in or right next to the code that implements the behaviour the property is about, each of which
  (a) keeps the property above TRUE for every input, configuration and schedule it quantifies over (read the statement carefully: what it does not constrain is free to change),
  (b) still compiles (every crate you touched and the crates under tests/ that depend on it), with default features and with the features the integration crates enable,
  (c) still passes the existing test suite (run at least `cargo test -p <touched crate> --offline` plus the relevant integration crates: tests/integration_tests (package `integration-tests`), tests/compression (package `compression`), tests/web (package `test_web`) when they exercise the code you changed). Note: the test `connect_handles_tls` in integration-tests already fails on the unchanged tree (no network); ignore it.
  (d) is the kind of change a maintainer really makes: a refactor that restructures the control flow or state machine, a performance change (different buffer growth / reservation / batching / chunking of output, fewer copies, different poll order where order is not promised), a change of behaviour the property leaves open (wording of an error message, which of several allowed status codes or texts is used where the statement allows several, extra or reordered headers that are not constrained, different but legal wire output, stricter or laxer handling of inputs outside what the statement quantifies over), or an additive API change.
At least two of the {n} changes must alter something OBSERVABLE from outside (bytes on the wire, chunk boundaries, header order, message texts, number of polls/allocations, timing, log output …) in a way the property allows; pure renames are not interesting. Make them as bold as the statement permits: the point is to catch a checker that demands more than the statement says.

{prior}For each change i (1..{n}) deliver, under {outd}/n<i>/ :
  - patch.diff : `git diff` of the change against the worktree's HEAD (apply-able with `git apply` at the repository root).
  - meta.json : {{"property": "{pid}", "summary": "<one line>", "observable_difference": "<what an outside observer can see change, or 'none'>", "why_property_still_holds": "<a careful argument, clause by clause of the statement>", "files": [..], "tests_run": ["<commands you ran and their result>"]}}

Work one change at a time: edit, build, run the existing tests, save patch.diff, then reset the worktree (`git checkout -- . && git clean -fd -e target`) before the next change. Leave the worktree clean (no uncommitted changes other than target/) when you finish. Do not commit anything.

Finish with a short report: for each change, what it alters, what can be observed from outside, and why the property still holds; and the exact commands you used to confirm (b) and (c). If you are not sure that a change keeps the property true in some corner, say so plainly and describe the corner.""")
