#!/usr/bin/env bash
# tools/run_all.sh <tier> [ids...] — run checks sequentially, print one summary line each
TIER="${1:-quick}"; shift
IDS="${*:-C01 C02 C03 C04 C05 C06 C07 C08 C09 C10 C11 C12 C13 C14 C15 C16 C17 C18 C19 C20}"
cd "$(dirname "$0")/.."
for id in $IDS; do
  s=$(date +%s); out=$(./check $id $TIER 2>&1); rc=$?; e=$(( $(date +%s) - s ))
  echo "== $id $TIER rc=$rc ${e}s :: $(echo "$out" | grep -E "^$id " | tail -1)"
  echo "$out" | grep -E "VIOLATION|INCONCLUSIVE|BUILD-FAILED|KNOWN-FINDING|leg:|wirecheck|regeneration" | head -8
done
