#!/usr/bin/env bash
# tools/try_seed.sh <patch.diff> <tier> <ID> [<ID>...]  — apply a seeded change to /repo, run checks, ALWAYS revert.
set -u
P="$1"; TIER="$2"; shift 2
cd /verif
if ! git -C /repo diff --quiet; then echo "/repo has uncommitted changes; refusing"; exit 9; fi
trap 'git -C /repo checkout -- . ; git -C /repo clean -fdq -- tonic tonic-web tonic-build tonic-health tonic-reflection tonic-types tests 2>/dev/null' EXIT
git -C /repo apply "$P" || { echo "patch does not apply"; exit 8; }
for id in "$@"; do
  out=$(VERIF_EVIDENCE_DIR=${VERIF_EVIDENCE_DIR:-/tmp} ./check "$id" "$TIER" 2>&1); rc=$?
  echo "== $id $TIER rc=$rc"
  echo "$out" | grep -E "VIOLATION|signature:|what:|INCONCLUSIVE|BUILD-FAILED|KNOWN" | head -12
done
