#!/usr/bin/env bash
# tools/regress_seeds.sh [ID ...] — re-run every kept seeded change against the check of its own
# property (quick tier) and report which are (still) detected.  Applies each patch to /repo and
# ALWAYS reverts (tools/try_seed.sh).  Output: one line per seed; exit 1 if any is missed.
cd /verif
IDS="${*:-$(ls seeded)}"
miss=0; tot=0
for id in $IDS; do
  for d in seeded/$id/*/; do
    m=$(basename "$d"); tot=$((tot+1))
    out=$(tools/try_seed.sh "$d/patch.diff" quick "$id" 2>&1)
    if echo "$out" | grep -q "^== $id quick rc=1"; then
      echo "detected $id/$m :: $(echo "$out" | grep -m1 'signature:' | sed 's/^ *//')"
    else
      miss=$((miss+1)); echo "MISSED   $id/$m :: $(echo "$out" | grep -E '^== ' | tr '\n' ' ')"
    fi
  done
done
echo "seeds: $tot, missed: $miss"
[ $miss -eq 0 ]
