#!/usr/bin/env bash
# tools/regress_seeds.sh [ID ...] — re-run every kept seeded change against the check of its own
# property and the checks named in its meta.json "detected_by" (quick tier) and report which are
# (still) detected.  Applies each patch to /repo and ALWAYS reverts (tools/try_seed.sh).
# Output: one line per seed; exit 1 if any is missed.
cd /verif
IDS="${*:-$(ls seeded | grep -E '^C[0-9]+$')}"
miss=0; tot=0
for id in $IDS; do
  for d in seeded/$id/*/; do
    m=$(basename "$d"); tot=$((tot+1))
    also=$(python3 -c "import json,re,sys;print(' '.join(sorted(set(re.findall(r'\bC\d\d\b', json.load(open('$d/meta.json')).get('detected_by',''))) - {'$id'})))" 2>/dev/null)
    out=$(tools/try_seed.sh "/verif/${d}patch.diff" quick $id $also 2>&1)
    own=$(echo "$out" | grep -c "^== $id quick rc=1")
    any=$(echo "$out" | grep -E "^== C[0-9]+ quick rc=1" | awk '{print $2}' | tr '\n' ' ')
    if [ -n "$any" ]; then
      echo "detected $id/$m by: $any:: $(echo "$out" | grep -m1 'signature:' | sed 's/^ *//')"
      [ "$own" = "0" ] && echo "   note: not by its own property's check"
    else
      miss=$((miss+1)); echo "MISSED   $id/$m :: $(echo "$out" | grep -E '^== ' | tr '\n' ' ')"
    fi
  done
done
echo "seeds: $tot, missed: $miss"
[ $miss -eq 0 ]
