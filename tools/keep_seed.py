#!/usr/bin/env python3
"""tools/keep_seed.py <ID> <mN> <caught_by text>  — copy a confirmed seeded change into /verif/seeded/."""
import json, os, shutil, sys
pid, m, caught = sys.argv[1], sys.argv[2], sys.argv[3]
src = f"/tmp/seedout/{pid}/{m}"
# round-2 sources are named <ID>-r2: keep them as seeded/<ID>/r2<m>
if "-r" in pid:
    base, r = pid.split("-r")
    pid, m = base, f"r{r}{m}"
conf = json.load(open(f"{src}/confirm.json"))
assert conf.get("confirmed"), "not confirmed"
dst = f"/verif/seeded/{pid}/{m}"
os.makedirs(dst, exist_ok=True)
for f in ("patch.diff", "demo.rs", "README.md"):
    if os.path.exists(f"{src}/{f}"):
        shutil.copy(f"{src}/{f}", f"{dst}/{f}")
meta = json.load(open(f"{src}/meta.json"))
meta["breaks_property"] = pid
meta["confirmed_by_me"] = {
    "where": "scratch worktree /tmp/wt-confirm at /repo HEAD (removed afterwards)",
    "ran": ["demo on unchanged tree: " + meta.get("demo_cmd", "?") + " -> exit %d" % conf["demo_rc_unchanged"],
            "git apply patch.diff; same demo -> exit %d (fails)" % conf["demo_rc_patched"],
            "cargo nextest run --workspace --no-fail-fast --offline with the patch (demo removed) -> %s passed, failing: %s" % (conf["suite_passed"], conf["suite_failed_names"] or "none")],
}
meta["detected_by"] = caught
json.dump(meta, open(f"{dst}/meta.json", "w"), indent=1)
print("kept", dst)
