#!/usr/bin/env bash
# tools/lanes.sh setup <n> | run <lane> <cmd...> | sync | teardown
# Parallel lanes for the seed regression and neutral sweeps ONLY (never for evidence): lane i is a
# private mount namespace in which /repo is a scratch clone of /repo's HEAD and /verif a scratch copy
# of /verif (with its warm target dir), both under /tmp/lanes/<i>.  The registered checks are not
# involved: they always run in the real /verif against the real /repo.
set -u
L=/tmp/lanes
case "${1:-}" in
  setup)
    n="$2"
    for i in $(seq 1 "$n"); do
      mkdir -p $L/$i
      if [ ! -d $L/$i/repo/.git ]; then git clone -q /repo $L/$i/repo || exit 9; fi
      git -C $L/$i/repo fetch -q /repo HEAD && git -C $L/$i/repo checkout -q --detach FETCH_HEAD && git -C $L/$i/repo checkout -- . && git -C $L/$i/repo clean -fdq
      rsync -a --delete --exclude '.git' /verif/ $L/$i/verif/
    done;;
  sync)
    for d in $L/*/; do rsync -a --delete --exclude '.git' --exclude target /verif/ $d/verif/; done;;
  run)
    i="$2"; shift 2
    exec unshare -m bash -c "mount --bind $L/$i/repo /repo && mount --bind $L/$i/verif /verif && cd /verif && exec \"\$@\"" lane "$@";;
  teardown)
    rm -rf $L;;
  *) echo "usage: lanes.sh setup <n> | run <lane> <cmd...> | sync | teardown"; exit 2;;
esac
