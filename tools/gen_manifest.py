#!/usr/bin/env python3
"""Regenerates /verif/MANIFEST.json from the table below (single source of truth)."""
import json, subprocess, os
ROOT = os.path.dirname(os.path.dirname(os.path.abspath(__file__)))

# id -> (level category, level text, level note, technique, design_ref, has_thorough)
CHECKS = {
 "C01": ("exploration",
   "Runs the real EncodeBody and Streaming over thousands of generated (messages, encoding, buffer settings, source readiness, chunking) cases and judges every execution with a reference framing parser, an independent decompressor and a byte-equality metamorphic oracle across schedules; thorough adds every single/double cut of small streams, a Miri leg over the unsafe EncodeBuf/advance_mut path and a memcheck leg over the zstd FFI. Right level because the property quantifies over inputs x schedules that cannot be enumerated; evidence lists the classes actually observed.",
   "Held only on the executions produced; oracles in harness/src/refc.rs and flate2/zstd (called directly) are trusted; Miri/memcheck cover only code the workload reaches.",
   "runtime monitoring: reference-model oracle over scripted schedules + Miri + valgrind memcheck", "DESIGN.md#c01"),
 "C04": ("exploration",
   "Round-trips generated statuses through the real add_header/into_http and from_header_map while independent codecs (percent, base64, RFC 9110 value rules) judge the wire values; feeds a grammar of corrupted header maps under catch_unwind; walks the HTTP-status table (100..=599) and the HTTP/2 error-code table exhaustively against tables transcribed from the gRPC docs.",
   "Held on the executions produced; the two tables are exhaustive, the rest sampled; oracle tables transcribed by hand from doc/http-grpc-status-mapping.md and PROTOCOL-HTTP2.md#errors.",
   "runtime monitoring: independent-codec oracle + totality under catch_unwind + exhaustive table walk", "DESIGN.md#c04"),
 "C06": ("exploration",
   "Drives the real decoder and encoder with limits placed at the exact wire length -1/0/+1 of a message at every position of a stream, in both directions/roles and all encodings, checks prompt refusal (by DATA-chunk count), OUT_OF_RANGE, delivery of earlier messages, a single final status with nothing after it, a 4 GiB item (thorough), and observes the largest single allocation with a counting allocator.",
   "Held on the executions produced; the allocation bound has 1 MiB slack for decompressor internals so only reservations driven by the declared length are caught.",
   "runtime monitoring: boundary-value workload + reference framing oracle + counting allocator", "DESIGN.md#c06"),
 "C07": ("exploration",
   "Feeds the real Streaming decoder mutated/hostile byte streams under generated chunkings, trailers and injected body errors, keeps polling 8 times after the first End/Err, and judges prefix-validity of yielded messages, must-fail/must-not-fail and finality with a reference parser; poll budgets and a body that parks after 64 post-end polls turn hangs and busy loops into observations; panics are caught per case.",
   "Held on the executions produced; protobuf decodability is judged only for canonical encodings (prost may be stricter on others).",
   "runtime monitoring: mutation workload + reference-parser oracle + poll-budget/hang monitors", "DESIGN.md#c07"),
 "C10": ("exploration",
   "Registers random subsets and orders of 12 tonic-build-generated services with colliding names through every Routes construction path and drives the real Routes service with exact and mutated paths; the oracle is plain string equality on uri.path(), every handler logs its identity, and both registration orders must agree.",
   "Held on the executions produced; HTTP/2 transport not involved in the quick tier (requests enter the Routes service directly).",
   "runtime monitoring: exact-string dispatch model over handler identity log", "DESIGN.md#c10"),
 "C12": ("exploration",
   "Drives the real InterceptedService with generated http requests (all methods/versions, reserved/binary/repeated headers, extensions, token body) and interceptor actions; a capture service records what the wrapped service sees and a reference multimap transformer predicts it; rejections are decoded with the harness's own status codecs.",
   "Held on the executions produced.",
   "runtime monitoring: reference transformer model at the service boundary", "DESIGN.md#c12"),
 "C02": ("exploration",
   "Drives the real generated client against the real generated server with script-defined handlers for all four call shapes; compares the client-visible history with a reference model of the shapes and the handler-side log with what the caller sent. Quick: in-process loopback transport whose bodies are re-chunked/merged with injected Pending. Both tiers also run the scripts over real Endpoint/Server HTTP/2 on fragmenting pipes with tiny windows on a paused clock. Handler streams may continue after their error item and every body is probed after its trailers; some response streams are reset before any status (never a success); a few messages exceed the 4 MiB default through cloned, reconfigured clients; a third of the bidirectional calls are interactive ping-pong calls (request i+1 only after reply i was read; a stall is a violation), handler streams and bodies may report exact size hints, some messages are 70/140 KB.",
   "Held on the executions produced; metadata compared by inclusion because tonic legitimately adds headers.",
   "runtime monitoring: reference model of the call shapes at client and handler boundaries", "DESIGN.md#c02"),
 "C13": ("fault_enumeration",
   "Runs the real serve_with_incoming_shutdown against real channels over fragmenting in-memory pipes on a paused clock; the shutdown signal is placed on (and next to) every phase boundary of 1..6 scripted concurrent calls on 1..3 connections, or fired in the same accept-loop iteration that takes a connection; an offline checker over the recorded event log decides loss of accepted calls, acceptance after the signal, resolve-before-close and bounded (3600 virtual s) resolution. A second monitor shuts a TLS server down gracefully while a transport connection that never began its handshake is still open: the serve future must resolve once the accepted connections closed.",
   "Held on the schedules produced (virtual time, tokio select! branch order is not seedable); benign close model (no RST) in the pipe; server windows below the HTTP/2 default only on pre-established connections (h2 stalls otherwise, see DESIGN.md).",
   "runtime monitoring: offline event-log checker over signal placements in virtual time", "DESIGN.md#c13"),
 "C14": ("fault_enumeration",
   "Enumerates (thorough: all 1800; quick: a seeded sample) short scripts over {connect fails, connect succeeds, established connection reset} x lazy/eager plus sampled longer ones; a scripted connector feeds the real Channel and a real server; each call is judged by a reference model driven by the connector invocations actually observed during that call; sampled scripts add two concurrent calls on cloned clients (failed calls <= failed attempts observed) calls whose connection is dropped in flight and calls whose deadline has already expired; hangs are decided in virtual time. Further monitors: real unix/TCP sockets with a server that goes away and comes back, and the fail/recover scripts on a channel whose Endpoint::executor drives every task from its own OS thread.",
   "Held on the scripts produced; calls are issued at quiescent points only (as the property says).",
   "runtime monitoring: fault-script enumeration + reference model driven by observed connector invocations", "DESIGN.md#c14"),
 "C05": ("exploration",
   "Walks all 16x16 ordered send/accept configurations of the generated server and all client configurations, feeding grpc-accept-encoding / grpc-encoding values from a grammar and frames flagged 0/1; a negotiation model written from the property text judges response encoding, announcements, refusals (UNIMPLEMENTED + advertised set), INTERNAL on unnegotiated flag 1, and what the client sends and advertises; payloads are decompressed by an independent decompressor; requests may carry caller-supplied negotiation headers; a reference model checks the configuration list type (enable/pop/is_enabled).",
   "Held on the executions produced (configurations exhaustive, header values sampled); case variants of encoding tokens are not generated (property silent).",
   "runtime monitoring: negotiation reference model over configuration grid + header grammar", "DESIGN.md#c05"),
 "C09": ("exploration",
   "Checks Request::set_timeout against the spec grammar and the <=/less-than-one-unit bounds with the harness's own parser on a boundary grid; enumerates the parser's input structure (unit x digits x shape) and malformed values through the verif-hooks wrapper; enforces min(caller, Server::timeout, Endpoint::timeout) against handler latency on a millisecond grid over the real transport on a paused clock.",
   "Held on the executions produced; durations above 99999999 h are outside the property; ties (latency == timeout) excluded.",
   "runtime monitoring: grammar oracle + hooked parser + virtual-time enforcement monitor", "DESIGN.md#c09"),
 "C16": ("exploration",
   "Drives the real GrpcWebLayer over a scripted inner service: responses under every chunking class and both encodings are decoded by an independent grpc-web decoder; requests (binary / base64 text cut anywhere) must reach the inner service as the original gRPC bytes with their gRPC and custom headers unchanged; the full method x version x content-type matrix is walked exhaustively.",
   "Held on the executions produced; unpadded base64 request bodies whose length is not a multiple of 4 are only checked for not delivering garbage.",
   "runtime monitoring: independent grpc-web decoder + exhaustive status matrix", "DESIGN.md#c16"),
 "C17": ("exploration",
   "Drives the real GrpcWebClientService with bodies from the harness's own grpc-web encoder under every chunking class, every single/double cut of small bodies and truncation at every byte; checks message bytes, full trailers as a multimap, error-on-truncation, finality, and uses poll budgets plus a body that parks after 64 post-end polls to observe hangs and busy loops.",
   "Held on the executions produced.",
   "runtime monitoring: independent encoder + truncation rules + busy-loop/hang monitors", "DESIGN.md#c17"),
 "C08": ("exploration",
   "Sends tainted metadata (reserved names carrying a USERVAL tag at random positions, ASCII and binary, repeats) through the real generated client and server while taps record what is on the wire and an optional padding peer re-encodes every -bin value; checks wire form, absence of taint under reserved names and restoration on the receiving side; a second monitor exercises every typed accessor of MetadataMap over arbitrary peer headers.",
   "Held on the executions produced; HTTP/2 HPACK is not in the path of the quick tier.",
   "runtime monitoring: taint tags + wire taps + multimap equality at both API boundaries", "DESIGN.md#c08"),
 "C18": ("exploration",
   "Random sequential histories over set/clear/check/watch/next through the generated HealthClient, with watchers polled only when an executor would poll them (never polled, or woken since their last Pending) and a sequential reference model; plus concurrent histories on a multi-thread runtime checked for per-service linearizability (Wing-Gong search over a register model, 2 s checker timeout => inconclusive) and watch-stream constraints; plus forced interleavings on a current-thread runtime (a writer burns tokio's cooperative budget so that it yields inside the reporter between look-up and update) judged against both sequential orders.",
   "Held on the histories produced; in the concurrent leg staleness is never decided by wall-clock (watchdog => inconclusive), the sequential leg decides it.",
   "runtime monitoring: sequential reference model with executor-faithful watcher scheduling + linearizability checker + forced-yield interleavings", "DESIGN.md#c18"),
 "C19": ("exploration",
   "Generates descriptor sets (nested packages, messages to depth 3 incl. field-less namespaces, oneofs, enums, services), registers them decoded/encoded in several sets with shared and repeated files, builds the real v1 and v1alpha services and queries every declared fully-qualified name, every file and the service list through the generated reflection clients; the harness's own descriptor walk is the oracle; mutated names must be NOT_FOUND; both versions must agree.",
   "Held on the descriptor sets produced; fully-qualified names are generated unique (protobuf requires it); enum values are addressed as <enum>.<VALUE>.",
   "runtime monitoring: own descriptor walk as reference + differential v1/v1alpha", "DESIGN.md#c19"),
 "C20": ("exploration",
   "Attaches generated standard error details (every subset of the 10 kinds as a set; lists of 0..12 with repeats) to statuses, sends them through the real header encoding and compares every getter field-wise; parses the embedded google.rpc.Status with the harness's own protobuf parser; feeds garbage/truncated/bit-flipped details to every decoder entry point under catch_unwind.",
   "Held on the executions produced; the detail types have no PartialEq so comparison is on a field-wise canonical rendering.",
   "runtime monitoring: field-wise round-trip oracle + independent protobuf parse + totality under catch_unwind", "DESIGN.md#c20"),
 "C03": ("exploration",
   "Taps what tonic's client and server bodies put on the wire for all four call shapes, every compression setting and the OK / handler-error / source-error / encode-failure outcomes, polls both bodies beyond their end, and has two judges that share no code with tonic decide conformance: a reference parser in the harness and oracle_py/wirecheck.py re-judging the recorded JSONL wire log with Python's zlib/gzip and the zstd CLI.",
   "Held on the executions produced; HTTP/2 pseudo-headers and END_STREAM flags are below the tapped boundary in the quick tier (hyper/h2 produce them).",
   "runtime monitoring: wire taps + two independent decoders (Rust reference parser, offline Python judge over the recorded log)", "DESIGN.md#c03"),
 "C15": ("fault_enumeration",
   "Enumerates the whole TLS configuration matrix (864 cells + https-without-TLS cases) on every run with real rustls handshakes between the real Endpoint/ClientTlsConfig and either tonic's own Server::tls_config or a harness acceptor with a chosen ALPN, over the in-memory pipe; a decision table written from the property text predicts success, a handler counter and a byte tap of the client's first bytes observe leakage, and the handler reports Request::peer_certs(). Further monitors: several peers with different identities on one server (each handler sees its own connection's chain), and Channel::balance_list over loopback TCP with two TLS servers (each endpoint authenticates with its own TLS settings; the server behind a misconfigured endpoint is never reached).",
   "Exhaustive over the stated matrix, not over certificates (one PKI under fixtures/pki, 2020-2120); for the ALPN none/http1.1 rows the server-side TLS is the harness's rustls configuration (tonic's server always offers h2).",
   "runtime monitoring: exhaustive configuration matrix + decision-table oracle + wire tap", "DESIGN.md#c15"),
 "C11": ("exploration",
   "Compiled-and-run leg: the real generator is run over a fixed family of 18 descriptor sets (27 services, 99 methods over all shapes, package forms, name shapes and builder options); trait implementations and a driver are derived from the public surface of the output only, compiled, and every generated client method is called against the generated server of its service while a tap records the path sent and which handler ran. Token leg: the generator is run over random descriptors and options and the output is inspected with syn (paths, shapes, types, advertised names; detailed checks only where the known dispatch structure is recognised). Regeneration leg: /repo is copied to a scratch directory, the real codegen binary is run and the committed generated sources of the health, reflection and rich-error crates are byte-compared.",
   "Held on the descriptor sets produced; the regeneration comparison is exact and complete (all generated files).",
   "runtime monitoring: generated code compiled and run under a path/handler tap + generator-output inspection + byte comparison of regenerated sources", "DESIGN.md#c11"),
}

NOT_YET = {}

def hooks_commits():
    out = subprocess.run(["git","-C","/repo","log","--format=%H %s"],capture_output=True,text=True).stdout
    return [l.split()[0] for l in out.splitlines() if "verif hook" in l]

def main():
    props = [json.loads(l) for l in open(os.path.join(ROOT,"properties.jsonl"))]
    checks = []
    na = []
    for p in props:
        pid = p["id"]
        if pid in CHECKS:
            cat, text, note, tech, ref = CHECKS[pid]
            checks.append({
                "property_id": pid,
                "quick_cmd": f"./check {pid} quick",
                "thorough_cmd": f"./check {pid} thorough",
                "evidence_file": f"/verif/evidence/{pid}.json",
                "replay_cmd_template": f"./check {pid} --replay {{path}}",
                "engine": "vcheck",
                "level_claimed": {"category": cat, "text": text, "design_ref": ref},
                "level_note": note,
                "technique": tech,
            })
        else:
            na.append({"property_id": pid, "reason": NOT_YET.get(pid, "check not built yet in this round (planned: runtime monitor per DESIGN.md section 4); not claimed until its monitor runs silent on the unchanged tree")})
    m = {
        "version": 1,
        "setup_cmd": "./check --build",
        "hooks": {
            "guard": "cargo feature `verif-hooks` of crate tonic",
            "enable": "harness/Cargo.toml depends on /repo/tonic by path with features [\"verif-hooks\", ...]; ./check rebuilds it with cargo build --release --offline",
            "baseline_off_cmd": "cd /repo && cargo nextest run --workspace --no-fail-fast --test-threads 8 --offline || cargo test --workspace --no-fail-fast --offline",
            "source_commits": hooks_commits(),
            "add_only": True,
        },
        "engines": [
            {"name": "vcheck", "path": "harness/src/bin/vcheck.rs", "serves_properties": sorted(CHECKS),
             "kind_free_text": "Rust harness linking the crates in /repo by path: seeded generators, scripted schedulers (bodies, sources, byte pipes, paused clock), fault injection, reference oracles, event-log checkers; writes evidence/<id>.json"},
        ],
        "checks": checks,
        "notes": "Exit codes of ./check: 0 held on what was observed, 1 VIOLATION, 2 BUILD-FAILED, 3 INCONCLUSIVE (coverage floor missed or watchdog). Known findings: known_findings.json.",
        "not_applicable": na,
    }
    json.dump(m, open(os.path.join(ROOT,"MANIFEST.json"),"w"), indent=1)
    print("checks:", len(checks), "not_applicable:", len(na))
main()
