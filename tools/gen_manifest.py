#!/usr/bin/env python3
"""Regenerates /verif/MANIFEST.json from the table below (single source of truth)."""
import json, subprocess, os
ROOT = os.path.dirname(os.path.dirname(os.path.abspath(__file__)))

# id -> (level category, level text, level note, technique, design_ref, has_thorough)
CHECKS = {
 "C01": ("exploration",
   "Runs the real EncodeBody and Streaming over thousands of generated (messages, encoding, buffer settings, source readiness, chunking) cases and judges every execution with a reference framing parser, an independent decompressor and a byte-equality metamorphic oracle across schedules; thorough adds every single/double cut of small streams, a Miri leg over the unsafe EncodeBuf/advance_mut path and a memcheck leg over the zstd FFI. Right level because the property quantifies over inputs x schedules that cannot be enumerated; evidence lists the classes actually observed.",
   "Held only on the executions produced; oracles in harness/src/refc.rs and flate2/zstd (called directly) are trusted; Miri/memcheck cover only code the workload reaches.",
   "runtime monitoring: reference-model oracle over scripted schedules + Miri + valgrind memcheck", "DESIGN.md#c01"),
}

NOT_YET = {}

def hooks_commits():
    out = subprocess.run(["git","-C","/repo","log","--format=%H %s"],capture_output=True,text=True).stdout
    return [l.split()[0] for l in out.splitlines() if "verif hook" in l]

def main():
    props = [json.loads(l) for l in open(os.path.join(ROOT,"properties.jsonl"))]
    checks = []
    na = []
    for p in props:
        pid = p["id"]
        if pid in CHECKS:
            cat, text, note, tech, ref = CHECKS[pid]
            checks.append({
                "property_id": pid,
                "quick_cmd": f"./check {pid} quick",
                "thorough_cmd": f"./check {pid} thorough",
                "evidence_file": f"/verif/evidence/{pid}.json",
                "replay_cmd_template": f"./check {pid} --replay {{path}}",
                "engine": "vcheck",
                "level_claimed": {"category": cat, "text": text, "design_ref": ref},
                "level_note": note,
                "technique": tech,
            })
        else:
            na.append({"property_id": pid, "reason": NOT_YET.get(pid, "check not built yet in this round (planned: runtime monitor per DESIGN.md section 4); not claimed until its monitor runs silent on the unchanged tree")})
    m = {
        "version": 1,
        "setup_cmd": "./check --build",
        "hooks": {
            "guard": "cargo feature `verif-hooks` of crate tonic",
            "enable": "harness/Cargo.toml depends on /repo/tonic by path with features [\"verif-hooks\", ...]; ./check rebuilds it with cargo build --release --offline",
            "baseline_off_cmd": "cd /repo && cargo nextest run --workspace --no-fail-fast --test-threads 8 --offline || cargo test --workspace --no-fail-fast --offline",
            "source_commits": hooks_commits(),
            "add_only": True,
        },
        "engines": [
            {"name": "vcheck", "path": "harness/src/bin/vcheck.rs", "serves_properties": sorted(CHECKS),
             "kind_free_text": "Rust harness linking the crates in /repo by path: seeded generators, scripted schedulers (bodies, sources, byte pipes, paused clock), fault injection, reference oracles, event-log checkers; writes evidence/<id>.json"},
        ],
        "checks": checks,
        "notes": "Exit codes of ./check: 0 held on what was observed, 1 VIOLATION, 2 BUILD-FAILED, 3 INCONCLUSIVE (coverage floor missed or watchdog). Known findings: known_findings.json.",
        "not_applicable": na,
    }
    json.dump(m, open(os.path.join(ROOT,"MANIFEST.json"),"w"), indent=1)
    print("checks:", len(checks), "not_applicable:", len(na))
main()
