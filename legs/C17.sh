#!/usr/bin/env bash
# thorough-only extra leg for C17: reduced workload under Miri
exec "$(dirname "$0")/miri.sh" C17 "$1" 1/400 8
