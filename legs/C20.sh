#!/usr/bin/env bash
# thorough-only extra leg for C20: reduced workload under Miri
exec "$(dirname "$0")/miri.sh" C20 "$1" 1/400 8
