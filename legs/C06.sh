#!/usr/bin/env bash
# thorough-only extra leg for C06: reduced workload under Miri
exec "$(dirname "$0")/miri.sh" C06 "$1" 1/400 8
