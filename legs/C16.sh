#!/usr/bin/env bash
# thorough-only extra leg for C16: reduced workload under Miri
exec "$(dirname "$0")/miri.sh" C16 "$1" 1/400 8
