#!/usr/bin/env bash
# thorough-only extra leg for C12: reduced workload under Miri
exec "$(dirname "$0")/miri.sh" C12 "$1" 1/500 8
