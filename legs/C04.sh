#!/usr/bin/env bash
# thorough-only extra leg for C04: reduced workload under Miri
exec "$(dirname "$0")/miri.sh" C04 "$1" 1/500 8
