#!/usr/bin/env bash
# legs/miri.sh <ID> <seed> <scale a/b> [shards]  — reduced workload of property <ID> under Miri
# (UB / uninitialised reads / data races in the unsafe code the workload reaches: EncodeBuf +
# advance_mut in the codec, the HeaderName/HeaderValue transmutes in tonic::metadata).
# exit 0 clean, 1 VIOLATION (UB or behavioural), 3 INCONCLUSIVE.
ID="$1"; SEED="$2"; SCALE="$3"; SHARDS="${4:-8}"
ROOT="$(cd "$(dirname "$0")/.." && pwd)"
export CARGO_NET_OFFLINE=true CARGO_TARGET_DIR="$ROOT/target" MIRIFLAGS="-Zmiri-disable-isolation"
OUT="$ROOT/target/miri-logs"; mkdir -p "$OUT"
EV="${VERIF_EVIDENCE_DIR:-$ROOT/evidence}/$ID.json"
if ! cargo +nightly miri --version >/dev/null 2>&1; then echo "miri leg: cargo +nightly miri not available, skipped"; exit 0; fi
# build once (serial), then shard
( cd "$ROOT/harness" && cargo +nightly miri run --offline --no-default-features --bin vcheck -- $ID --only nothing:0 --no-evidence --no-floors ) > "$OUT/$ID-build.log" 2>&1
if grep -q "could not compile" "$OUT/$ID-build.log"; then tail -20 "$OUT/$ID-build.log"; echo "BUILD-FAILED miri build of the harness (not a verdict)"; exit 2; fi
pids=()
for s in $(seq 1 "$SHARDS"); do
  ( cd "$ROOT/harness" && timeout 3000 cargo +nightly miri run --offline --no-default-features --bin vcheck -- $ID --tier quick --seed $((SEED * 1000 + s)) --scale "$SCALE" --threads 1 --no-evidence --no-floors --budget 2400 ) > "$OUT/$ID-shard$s.log" 2>&1 &
  pids+=($!)
done
rc=0
for p in "${pids[@]}"; do wait $p || true; done
evals=0; ub=0; viol=0; wd=0
for s in $(seq 1 "$SHARDS"); do
  L="$OUT/$ID-shard$s.log"
  if grep -qE "Undefined Behavior|error: unsupported operation|data race" "$L"; then ub=$((ub+1)); echo "VIOLATION property=$ID replay=$L"; grep -E -A12 "Undefined Behavior|data race" "$L" | head -30; fi
  if grep -q "^VIOLATION" "$L"; then viol=$((viol+1)); grep -A3 "^VIOLATION" "$L" | head -12; fi
  e=$(grep -Eo "evaluations=[0-9]+" "$L" | tail -1 | cut -d= -f2); evals=$((evals + ${e:-0}))
  if ! grep -q "evaluations=" "$L"; then wd=$((wd+1)); fi
done
python3 - "$EV" "$evals" "$ub" "$viol" "$SHARDS" "$wd" <<'PY'
import json,sys
try:
    ev=json.load(open(sys.argv[1]))
    ev["coverage"]["miri_leg"]={"cases_interpreted":int(sys.argv[2]),"ub_reports":int(sys.argv[3]),"behavioural_violations":int(sys.argv[4]),"shards":int(sys.argv[5]),"shards_without_result":int(sys.argv[6]),"flags":"-Zmiri-disable-isolation, --no-default-features (no zstd: Miri cannot cross the C FFI)"}
    if int(sys.argv[3]) or int(sys.argv[4]): ev["violations"]=ev.get("violations",0)+1
    json.dump(ev,open(sys.argv[1],"w"),indent=2)
except Exception as e: print("miri leg: evidence merge failed:",e)
PY
if [ $ub -gt 0 ] || [ $viol -gt 0 ]; then exit 1; fi
if [ $wd -gt 0 ] || [ $evals -eq 0 ]; then echo "INCONCLUSIVE property=$ID reason=miri leg: $wd shard(s) produced no result (watchdog or harness error), $evals cases interpreted"; exit 3; fi
echo "miri leg: $evals cases of $ID interpreted in $SHARDS shards, no UB reported"
exit 0
