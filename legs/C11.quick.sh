#!/usr/bin/env bash
# C11 regeneration leg: the committed generated sources are exactly what the generator produces.
# Copies /repo to a scratch directory (never writes into /repo), runs the real `codegen` binary
# there, byte-compares every src/generated/*.rs of tonic-health, tonic-reflection, tonic-types.
# usage: legs/C11.quick.sh <seed> <tier>
ROOT="$(cd "$(dirname "$0")/.." && pwd)"
EV="${VERIF_EVIDENCE_DIR:-$ROOT/evidence}/C11.json"
# Fixed scratch path: the codegen binary bakes CARGO_MANIFEST_DIR in at compile time, so a stable
# path keeps cargo's fingerprints valid between runs; serialised with a lock, removed afterwards.
SCR=/tmp/verif-c11-scratch
exec 9>/tmp/verif-c11.lock; flock 9
rm -rf "$SCR"; mkdir -p "$SCR" || { echo "INCONCLUSIVE property=C11 reason=cannot create $SCR"; exit 3; }
trap 'rm -rf "$SCR"' EXIT
export CARGO_NET_OFFLINE=true CARGO_TARGET_DIR="$ROOT/target/codegen-target"
rsync -a --exclude target --exclude .git /repo/ "$SCR/repo/" || { echo "INCONCLUSIVE property=C11 reason=rsync"; exit 3; }
( cd "$SCR/repo" && timeout 1500 cargo run -q -p codegen --offline ) > "$ROOT/target/codegen.log" 2>&1
rc=$?
if [ $rc -ne 0 ] && [ $rc -ne 124 ] && ! grep -q "could not compile" "$ROOT/target/codegen.log"; then
  # a stale binary (compiled for another checkout path) is rebuilt once from scratch
  ( cd "$SCR/repo" && cargo clean -q -p codegen --offline; timeout 1500 cargo run -q -p codegen --offline ) > "$ROOT/target/codegen.log" 2>&1
  rc=$?
fi
if [ $rc -ne 0 ]; then
  grep -E "panicked|error" -A4 "$ROOT/target/codegen.log" | head -30
  if [ $rc -eq 124 ]; then echo "INCONCLUSIVE property=C11 reason=watchdog leg=regeneration"; exit 3; fi
  echo "BUILD-FAILED the codegen binary did not build/run on the current tree (not a verdict)"; exit 2
fi
n=0; bad=0; list=""
for crate in tonic-health tonic-reflection tonic-types; do
  for f in "$SCR/repo/$crate/src/generated/"*.rs; do
    b=$(basename "$f"); n=$((n+1))
    if ! cmp -s "$f" "/repo/$crate/src/generated/$b"; then
      bad=$((bad+1)); list="$list $crate/src/generated/$b"
    fi
  done
  # a committed generated file that the generator no longer writes is a difference too
  for f in /repo/$crate/src/generated/*.rs; do
    [ -e "$SCR/repo/$crate/src/generated/$(basename "$f")" ] || { bad=$((bad+1)); list="$list $crate/src/generated/$(basename "$f")(stale)"; }
  done
done
python3 - "$EV" "$n" "$bad" "$list" <<'PY'
import json,sys
try:
    ev=json.load(open(sys.argv[1]))
    ev["coverage"]["regeneration"]={"files_compared":int(sys.argv[2]),"files_differing":int(sys.argv[3]),"differing":sys.argv[4].split()}
    if int(sys.argv[3]): ev["violations"]=ev.get("violations",0)+1
    json.dump(ev,open(sys.argv[1],"w"),indent=2)
except Exception as e:
    print("C11 leg: could not merge into evidence:",e)
PY
if [ $bad -ne 0 ]; then
  mkdir -p "$ROOT/replays"; R="$ROOT/replays/C11-regeneration.txt"
  { echo "committed generated files differ from what the generator produces:"; for x in $list; do echo "  $x"; done; } > "$R"
  for x in $list; do case "$x" in *"(stale)") ;; *) diff -u "/repo/$x" "$SCR/repo/$x" | head -40 >> "$R";; esac; done
  echo "VIOLATION property=C11 replay=$R"; echo "  regenerated sources differ:$list"; exit 1
fi
echo "regeneration: $n generated files byte-identical to the committed ones"

# ---- compiled-and-run leg: tonic-build output for a fixed family of descriptors is compiled by
# c11gen's build script (real generator from /repo) and every generated client method is called
# against the generated server of its service.
export CARGO_TARGET_DIR="$ROOT/target/c11gen-target"
( cd "$ROOT/c11gen" && timeout 1500 cargo build --offline ) > "$ROOT/target/c11gen.log" 2>&1
rc=$?
if [ $rc -ne 0 ]; then
  grep -E "^error|panicked" -A6 "$ROOT/target/c11gen.log" | head -30
  if [ $rc -eq 124 ]; then echo "INCONCLUSIVE property=C11 reason=watchdog leg=c11gen-build"; exit 3; fi
  echo "INCONCLUSIVE property=C11 reason=the generated code of the descriptor family (or tonic itself) does not compile on the current tree; nothing was run leg=c11gen"; exit 3
fi
REP="$ROOT/target/c11gen-report.json"
timeout 300 "$CARGO_TARGET_DIR/debug/verif-c11gen" "$REP"; rc=$?
python3 - "$EV" "$REP" <<'PY'
import json,sys
try:
    ev=json.load(open(sys.argv[1])); rep=json.load(open(sys.argv[2]))
    ev["coverage"]["generated_code_compiled_and_run"]=rep
    if rep.get("violations"): ev["violations"]=ev.get("violations",0)+rep["violations"]
    json.dump(ev,open(sys.argv[1],"w"),indent=2)
except Exception as e:
    print("C11 leg: could not merge the c11gen report into evidence:",e)
PY
if [ $rc -eq 1 ]; then
  mkdir -p "$ROOT/replays"; cp "$REP" "$ROOT/replays/C11-generated-code-run.json"
  echo "VIOLATION property=C11 replay=$ROOT/replays/C11-generated-code-run.json"; exit 1
fi
if [ $rc -ne 0 ]; then echo "INCONCLUSIVE property=C11 reason=c11gen exited $rc leg=c11gen"; exit 3; fi
exit 0
