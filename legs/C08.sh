#!/usr/bin/env bash
# thorough-only extra leg for C08: reduced workload under Miri
exec "$(dirname "$0")/miri.sh" C08 "$1" 1/250 8
