#!/usr/bin/env bash
# thorough-only extra legs for C01: Miri (identity/gzip/deflate) then valgrind memcheck (zstd)
D="$(dirname "$0")"; rc=0
"$D/miri.sh" C01 "$1" 1/400 8; a=$?
"$D/memcheck.sh" C01 "$1" 1/100; b=$?
if [ $a -eq 1 ] || [ $b -eq 1 ]; then exit 1; fi
if [ $a -ne 0 ] || [ $b -ne 0 ]; then exit 3; fi
exit 0
