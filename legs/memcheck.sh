#!/usr/bin/env bash
# legs/memcheck.sh <ID> <seed> <scale a/b>  — zstd-only slice of the codec workload under valgrind
# memcheck (the zstd C library is reached through tonic's compression path).
ID="$1"; SEED="$2"; SCALE="$3"
ROOT="$(cd "$(dirname "$0")/.." && pwd)"
BIN="$ROOT/target/release/vcheck"
OUT="$ROOT/target/memcheck-logs"; mkdir -p "$OUT"
EV="${VERIF_EVIDENCE_DIR:-$ROOT/evidence}/$ID.json"
if ! command -v valgrind >/dev/null; then echo "memcheck leg: valgrind not available, skipped"; exit 0; fi
pids=()
for s in 1 2 3 4; do
  ( VERIF_ONLY_ENC=zstd VERIF_NO_ALLOC_TRACK=1 timeout 3000 valgrind --tool=memcheck --error-exitcode=42 --errors-for-leak-kinds=definite --leak-check=full --num-callers=20 -q \
      "$BIN" $ID --tier quick --seed $((SEED * 1000 + s)) --scale "$SCALE" --threads 1 --no-evidence --no-floors ) > "$OUT/$ID-shard$s.log" 2>&1 &
  pids+=($!)
done
codes=()
for p in "${pids[@]}"; do wait $p; codes+=($?); done
evals=0; errs=0; viol=0; wd=0
for s in 1 2 3 4; do
  L="$OUT/$ID-shard$s.log"; c=${codes[$((s-1))]}
  if [ "$c" = "42" ] || grep -qE "^==[0-9]+== (Invalid|Conditional jump|Use of uninit|Mismatched|Source and dest)" "$L"; then errs=$((errs+1)); echo "VIOLATION property=$ID replay=$L"; grep -E "^==[0-9]+==" "$L" | head -25; fi
  if grep -q "^VIOLATION" "$L"; then viol=$((viol+1)); grep -A3 "^VIOLATION" "$L" | head -8; fi
  e=$(grep -Eo "evaluations=[0-9]+" "$L" | tail -1 | cut -d= -f2); evals=$((evals + ${e:-0}))
  if ! grep -q "evaluations=" "$L"; then wd=$((wd+1)); fi
done
python3 - "$EV" "$evals" "$errs" "$viol" "$wd" <<'PY'
import json,sys
try:
    ev=json.load(open(sys.argv[1]))
    ev["coverage"]["memcheck_leg"]={"zstd_cases_under_valgrind":int(sys.argv[2]),"shards_with_memcheck_errors":int(sys.argv[3]),"behavioural_violations":int(sys.argv[4]),"shards_without_result":int(sys.argv[5])}
    if int(sys.argv[3]) or int(sys.argv[4]): ev["violations"]=ev.get("violations",0)+1
    json.dump(ev,open(sys.argv[1],"w"),indent=2)
except Exception as e: print("memcheck leg: evidence merge failed:",e)
PY
if [ $errs -gt 0 ] || [ $viol -gt 0 ]; then exit 1; fi
if [ $wd -gt 0 ] || [ $evals -eq 0 ]; then echo "INCONCLUSIVE property=$ID reason=memcheck leg: $wd shard(s) without result"; exit 3; fi
echo "memcheck leg: $evals zstd cases of $ID under valgrind memcheck, no errors"
exit 0
