#!/usr/bin/env bash
# Independent offline judge of the wire log written by `vcheck C03` (Python zlib/gzip + zstd CLI).
# usage: legs/C03.quick.sh <seed> <tier>
SEED="$1"; TIER="$2"
ROOT="$(cd "$(dirname "$0")/.." && pwd)"
LOG="${VERIF_SCRATCH:-$ROOT/target}/wirelogs/C03-$TIER-s$SEED.jsonl"
EV="${VERIF_EVIDENCE_DIR:-$ROOT/evidence}/C03.json"
SUM="${VERIF_SCRATCH:-$ROOT/target}/wirelogs/C03-$TIER-s$SEED.summary.json"
if ! command -v python3 >/dev/null; then echo "wirecheck: python3 absent, Rust judge alone decided"; exit 0; fi
if [ ! -s "$LOG" ]; then echo "INCONCLUSIVE property=C03 reason=no wire log at $LOG"; exit 3; fi
python3 "$ROOT/oracle_py/wirecheck.py" "$LOG" "$SUM"; rc=$?
python3 - "$EV" "$SUM" <<'PY'
import json,sys
try:
    ev=json.load(open(sys.argv[1])); s=json.load(open(sys.argv[2]))
    ev["coverage"]["wirecheck_py"]=s
    if s.get("deviating_records"): ev["violations"]=ev.get("violations",0)+1
    json.dump(ev,open(sys.argv[1],"w"),indent=2)
except Exception as e:
    print("wirecheck: could not merge summary into evidence:",e)
PY
if [ $rc -eq 1 ]; then echo "VIOLATION property=C03 replay=$LOG"; echo "  the independent Python judge found non-conformant records in the wire log (see above)"; exit 1; fi
if [ $rc -ne 0 ]; then echo "INCONCLUSIVE property=C03 reason=wirecheck.py exit $rc"; exit 3; fi
echo "wirecheck.py: $(python3 -c "import json;s=json.load(open('$SUM'));print(s['records'],'records,',s['frames'],'frames re-judged; gzip',s['gzip'],'deflate',s['deflate'],'zstd',s['zstd'],'(skipped',s['zstd_skipped'],')')")"
exit 0
