//! Runs the real tonic-build from /repo over a fixed, diverse family of service descriptors, then
//! derives - from the PUBLIC SURFACE of the generated code only (trait and client method
//! signatures, parsed with syn) - an implementation of every generated server trait and a driver
//! that calls every generated client method.  Nothing here looks at how the generated code routes
//! or encodes internally: that is what the compiled code shows when `main` runs it.
use prost_types::{DescriptorProto, FileDescriptorProto, FileDescriptorSet, MethodDescriptorProto, ServiceDescriptorProto};
use quote::ToTokens;
use std::fmt::Write as _;

const SERVICE_NAMES: &[&str] = &["Ledger", "HTTPGateway", "ledger_v2", "Svc2", "X", "FooBarBaz", "Result", "Service", "a_b_c", "IO", "Stream2", "my_svc"];
const METHOD_NAMES: &[&str] = &["Post", "GetItem", "Getitem", "Type", "Match", "Move", "Loop", "Async", "Watch2", "A", "ListAll", "list_all_v2", "Send", "Unary", "Self_", "Box", "get_item", "Ready", "Connect", "Inner", "call", "HTTPGet"];
const PACKAGES: &[Option<&str>] = &[None, Some("acme"), Some("acme.billing.v1"), Some("p7.q_r"), Some("A.B"), Some("x")];

struct M {
    name: String,
    cs: bool,
    ss: bool,
    req: String,
    resp: String,
}
struct S {
    name: String,
    methods: Vec<M>,
}
struct G {
    pkg: Option<String>,
    services: Vec<S>,
    emit_package: bool,
    default_stubs: bool,
    arc_self: bool,
}

/// The Rust identifier two proto names would collide on (snake_case the way heck does it for the
/// name shapes used here); names that differ only in letter case elsewhere stay distinct.
fn snake_key(s: &str) -> String {
    let mut out = String::new();
    let cs: Vec<char> = s.chars().collect();
    for (i, c) in cs.iter().enumerate() {
        if c.is_uppercase() {
            let prev_lower = i > 0 && (cs[i - 1].is_lowercase() || cs[i - 1].is_ascii_digit());
            let next_lower = i + 1 < cs.len() && cs[i + 1].is_lowercase();
            if i > 0 && cs[i - 1] != '_' && (prev_lower || (cs[i - 1].is_uppercase() && next_lower)) {
                out.push('_');
            }
            out.extend(c.to_lowercase());
        } else {
            out.push(*c);
        }
    }
    out.trim_end_matches('_').to_string()
}

fn family() -> Vec<G> {
    let mut out = Vec::new();
    let mut mi = 0usize; // rotating cursor into METHOD_NAMES
    let mut si = 0usize;
    let mut shape = 0usize;
    let mut t = 0usize;
    for gi in 0..18 {
        let pkg = PACKAGES[gi % PACKAGES.len()].map(|s| s.to_string());
        let nsvc = 1 + gi % 2;
        let mut services = Vec::new();
        let mut used_s: Vec<String> = Vec::new();
        for _ in 0..nsvc {
            let mut name = SERVICE_NAMES[si % SERVICE_NAMES.len()];
            si += 1;
            while used_s.contains(&snake_key(name)) {
                name = SERVICE_NAMES[si % SERVICE_NAMES.len()];
                si += 1;
            }
            used_s.push(snake_key(name));
            let nm = 1 + (gi + si) % 5;
            let mut methods = Vec::new();
            let mut used_m: Vec<String> = Vec::new();
            while methods.len() < nm {
                let mname = METHOD_NAMES[mi % METHOD_NAMES.len()];
                mi += 1;
                if used_m.contains(&snake_key(mname)) {
                    continue;
                }
                used_m.push(snake_key(mname));
                t += 1;
                let (cs, ss) = (shape & 1 == 1, shape & 2 == 2);
                shape += 1;
                methods.push(M { name: mname.to_string(), cs, ss, req: format!("Req{}", t), resp: format!("Resp{}", t) });
            }
            // every fourth member: two rpcs whose names differ only in letter case
            if gi % 4 == 1 && services.is_empty() {
                for pair in ["GetItem", "Getitem"] {
                    if !methods.iter().any(|m: &M| snake_key(&m.name) == snake_key(pair)) {
                        t += 1;
                        let (cs, ss) = (shape & 1 == 1, shape & 2 == 2);
                        shape += 1;
                        methods.push(M { name: pair.to_string(), cs, ss, req: format!("Req{}", t), resp: format!("Resp{}", t) });
                    }
                }
            }
            services.push(S { name: name.to_string(), methods });
        }
        out.push(G { pkg, services, emit_package: gi % 4 != 3, default_stubs: gi % 3 == 1, arc_self: gi % 5 == 2 });
    }
    out
}

/// First generic argument of the last path segment of `ty` whose ident is `name`.
fn generic_arg_of<'a>(ty: &'a syn::Type, name: &str) -> Option<&'a syn::Type> {
    if let syn::Type::Path(p) = ty {
        let seg = p.path.segments.last()?;
        if seg.ident == name {
            if let syn::PathArguments::AngleBracketed(a) = &seg.arguments {
                for g in &a.args {
                    if let syn::GenericArgument::Type(t) = g {
                        return Some(t);
                    }
                }
            }
        }
    }
    None
}

fn last_ident(ty: &syn::Type) -> String {
    match ty {
        syn::Type::Path(p) => p.path.segments.last().map(|s| s.ident.to_string()).unwrap_or_default(),
        _ => String::new(),
    }
}

fn js(s: &str) -> String {
    format!("{:?}", s)
}

fn main() {
    println!("cargo:rerun-if-changed=build.rs");
    let out_dir = std::env::var("OUT_DIR").unwrap();
    let fam = family();
    let mut code = String::new();
    let mut meta = String::from("[");
    let mut runs = String::new();
    for (gi, g) in fam.iter().enumerate() {
        // ---- descriptor
        let mut fd = FileDescriptorProto { name: Some(format!("g{}.proto", gi)), package: g.pkg.clone(), syntax: Some("proto3".into()), ..Default::default() };
        for s in &g.services {
            let mut sd = ServiceDescriptorProto { name: Some(s.name.clone()), ..Default::default() };
            for m in &s.methods {
                let q = |t: &str| format!(".{}{}", g.pkg.clone().map(|p| p + ".").unwrap_or_default(), t);
                fd.message_type.push(DescriptorProto { name: Some(m.req.clone()), ..Default::default() });
                fd.message_type.push(DescriptorProto { name: Some(m.resp.clone()), ..Default::default() });
                sd.method.push(MethodDescriptorProto { name: Some(m.name.clone()), input_type: Some(q(&m.req)), output_type: Some(q(&m.resp)), client_streaming: Some(m.cs), server_streaming: Some(m.ss), options: None });
            }
            fd.service.push(sd);
        }
        let dir = format!("{}/g{}", out_dir, gi);
        let _ = std::fs::remove_dir_all(&dir);
        std::fs::create_dir_all(&dir).unwrap();
        let mut b = tonic_build::configure().out_dir(&dir).build_client(true).build_server(true).generate_default_stubs(g.default_stubs).use_arc_self(g.arc_self).emit_rerun_if_changed(false);
        if !g.emit_package {
            b = b.disable_package_emission();
        }
        // documentation options: with and without package in the spelling, for a service and for
        // single rpcs - none of it may change what is generated
        if gi % 3 == 2 {
            for s in &g.services {
                for pre in [g.pkg.clone().map(|p| p + ".").unwrap_or_default(), String::new()] {
                    if gi % 2 == 0 {
                        b = b.disable_comments(format!("{}{}", pre, s.name));
                    }
                    for (j, m) in s.methods.iter().enumerate() {
                        if j % 2 == 0 {
                            b = b.disable_comments(format!("{}{}.{}", pre, s.name, m.name));
                        }
                    }
                }
            }
        }
        b.compile_fds(FileDescriptorSet { file: vec![fd] }).unwrap_or_else(|e| panic!("tonic-build failed on family member {}: {}", gi, e));
        let mut files: Vec<std::path::PathBuf> = std::fs::read_dir(&dir).unwrap().flatten().map(|e| e.path()).filter(|p| p.extension().map(|x| x == "rs").unwrap_or(false)).collect();
        files.sort();
        let mut src = String::new();
        writeln!(code, "#[allow(warnings, clippy::all)]\npub mod g{} {{", gi).unwrap();
        for f in &files {
            src.push_str(&std::fs::read_to_string(f).unwrap());
            writeln!(code, "    include!({:?});", f.display().to_string()).unwrap();
        }
        let file = syn::parse_file(&src).unwrap_or_else(|e| panic!("generated code of family member {} does not parse: {}", gi, e));
        let mods: Vec<&syn::ItemMod> = file.items.iter().filter_map(|it| if let syn::Item::Mod(m) = it { Some(m) } else { None }).collect();
        let server_mods: Vec<&&syn::ItemMod> = mods.iter().filter(|m| m.ident.to_string().ends_with("_server")).collect();
        let client_mods: Vec<&&syn::ItemMod> = mods.iter().filter(|m| m.ident.to_string().ends_with("_client")).collect();
        assert_eq!(server_mods.len(), g.services.len(), "family member {}: {} server modules for {} services", gi, server_mods.len(), g.services.len());
        assert_eq!(client_mods.len(), g.services.len(), "family member {}: {} client modules for {} services", gi, client_mods.len(), g.services.len());
        write!(meta, "{}{{\"g\":{},\"package\":{},\"emit_package\":{},\"default_stubs\":{},\"arc_self\":{},\"services\":[", if gi > 0 { "," } else { "" }, gi, g.pkg.as_ref().map(|p| js(p)).unwrap_or("null".into()), g.emit_package, g.default_stubs, g.arc_self).unwrap();
        // The k-th service of the descriptor is matched to the k-th generated module pair only to
        // hand the oracle the descriptor to compare with; all pairing of client methods with
        // handlers is observed at run time.
        for (k, s) in g.services.iter().enumerate() {
            let sm = server_mods[k];
            let cm = client_mods[k];
            let sitems = &sm.content.as_ref().unwrap().1;
            let citems = &cm.content.as_ref().unwrap().1;
            let tr = sitems.iter().find_map(|it| if let syn::Item::Trait(t) = it { Some(t) } else { None }).unwrap_or_else(|| panic!("family member {}: no trait in {}", gi, sm.ident));
            let server_struct = sitems.iter().find_map(|it| if let syn::Item::Struct(t) = it { if t.ident.to_string().ends_with("Server") { Some(t.ident.to_string()) } else { None } } else { None }).unwrap_or_else(|| panic!("family member {}: no server struct in {}", gi, sm.ident));
            let client_struct = citems.iter().find_map(|it| if let syn::Item::Struct(t) = it { if t.ident.to_string().ends_with("Client") { Some(t.ident.to_string()) } else { None } } else { None }).unwrap_or_else(|| panic!("family member {}: no client struct in {}", gi, cm.ident));
            let uses_async_trait = tr.attrs.iter().any(|a| a.to_token_stream().to_string().contains("async_trait"));
            // ---- implementation of the generated trait
            writeln!(code, "    pub mod imp{} {{", k).unwrap();
            // the generated server module resolves its signature types through this glob as well
            writeln!(code, "        #[allow(unused_imports)] use tonic::codegen::*;").unwrap();
            writeln!(code, "        pub struct H;").unwrap();
            if uses_async_trait {
                writeln!(code, "        #[tonic::async_trait]").unwrap();
            }
            writeln!(code, "        impl super::{}::{} for H {{", sm.ident, tr.ident).unwrap();
            let mut trait_fns = String::new();
            for it in &tr.items {
                match it {
                    syn::TraitItem::Type(t) => {
                        let bounds = t.bounds.to_token_stream().to_string();
                        writeln!(code, "            type {} = std::pin::Pin<Box<dyn {}>>;", t.ident, bounds).unwrap();
                    }
                    syn::TraitItem::Fn(f) => {
                        let sig = &f.sig;
                        let ident = sig.ident.to_string();
                        // request parameter: the first typed argument
                        let (pname, pty) = sig
                            .inputs
                            .iter()
                            .find_map(|a| if let syn::FnArg::Typed(pt) = a { if pt.pat.to_token_stream().to_string() != "self" { Some((pt.pat.to_token_stream().to_string(), (*pt.ty).clone())) } else { None } } else { None })
                            .unwrap_or_else(|| panic!("trait fn {} has no request parameter", ident));
                        let inner_req = generic_arg_of(&pty, "Request").unwrap_or_else(|| panic!("trait fn {}: parameter is not a Request<_>", ident));
                        let (req_streaming, req_msg) = match generic_arg_of(inner_req, "Streaming") {
                            Some(t) => (true, last_ident(t)),
                            None => (false, last_ident(inner_req)),
                        };
                        let ret = match &sig.output {
                            syn::ReturnType::Type(_, t) => (**t).clone(),
                            _ => panic!("trait fn {} returns nothing", ident),
                        };
                        let ok_ty = generic_arg_of(&ret, "Result").unwrap_or_else(|| panic!("trait fn {}: return type is not a Result", ident));
                        let resp_inner = generic_arg_of(ok_ty, "Response").unwrap_or_else(|| panic!("trait fn {}: Ok type is not a Response<_>", ident));
                        let resp_tokens = resp_inner.to_token_stream().to_string();
                        // a streaming response is an associated type of the trait or a boxed stream
                        let assoc = resp_tokens.replace(' ', "").starts_with("Self::");
                        let resp_streaming = assoc || resp_tokens.contains("Stream");
                        let resp_msg = if assoc {
                            let an = resp_tokens.replace(' ', "").trim_start_matches("Self::").to_string();
                            tr.items
                                .iter()
                                .find_map(|x| if let syn::TraitItem::Type(t) = x { if t.ident == an.as_str() { Some(t.bounds.to_token_stream().to_string()) } else { None } } else { None })
                                .map(|b| {
                                    // ... Item = Result < super :: RespN , tonic :: Status > ...
                                    let after = b.split("Item").nth(1).unwrap_or("").to_string();
                                    after.split(|c: char| !(c.is_alphanumeric() || c == '_')).filter(|w| !w.is_empty()).find(|w| !["std", "result", "Result", "core", "super"].contains(w)).unwrap_or("").to_string()
                                })
                                .unwrap_or_default()
                        } else if resp_streaming {
                            resp_tokens.split(|c: char| !(c.is_alphanumeric() || c == '_')).filter(|w| !w.is_empty()).find(|w| !["tonic", "codegen", "BoxStream", "super", "std", "pin", "Pin", "Box", "dyn"].contains(w)).unwrap_or("").to_string()
                        } else {
                            last_ident(resp_inner)
                        };
                        writeln!(code, "            {} {{", sig.to_token_stream()).unwrap();
                        if req_streaming {
                            writeln!(code, "                let mut st = {}.into_inner(); let mut n = 0u32; while let Some(_m) = st.message().await? {{ n += 1; }}", pname).unwrap();
                        } else {
                            writeln!(code, "                let _m = {}.into_inner(); let n = 1u32;", pname).unwrap();
                        }
                        writeln!(code, "                crate::hit({}, {}, {}, n);", gi, k, js(&ident)).unwrap();
                        if resp_streaming {
                            writeln!(code, "                let b: {} = Box::pin(tokio_stream::iter(vec![Ok(Default::default()), Ok(Default::default())]));", resp_tokens).unwrap();
                            writeln!(code, "                Ok(tonic::Response::new(b))").unwrap();
                        } else {
                            writeln!(code, "                Ok(tonic::Response::new(Default::default()))").unwrap();
                        }
                        writeln!(code, "            }}").unwrap();
                        write!(trait_fns, "{}{{\"ident\":{},\"req_streaming\":{},\"resp_streaming\":{},\"req_msg\":{},\"resp_msg\":{}}}", if trait_fns.is_empty() { "" } else { "," }, js(&ident), req_streaming, resp_streaming, js(&req_msg), js(&resp_msg)).unwrap();
                    }
                    _ => {}
                }
            }
            writeln!(code, "        }}").unwrap();
            // ---- driver: every public async client method that takes a `request`
            writeln!(code, "        pub async fn drive() {{").unwrap();
            writeln!(code, "            let server = super::{}::{}::new(H);", sm.ident, server_struct).unwrap();
            writeln!(code, "            crate::named({}, {}, <super::{}::{}<H> as tonic::server::NamedService>::NAME);", gi, k, sm.ident, server_struct).unwrap();
            let mut client_fns = String::new();
            for it in citems {
                if let syn::Item::Impl(im) = it {
                    if im.trait_.is_some() {
                        continue;
                    }
                    for ii in &im.items {
                        if let syn::ImplItem::Fn(f) = ii {
                            if f.sig.asyncness.is_none() || !matches!(f.vis, syn::Visibility::Public(_)) {
                                continue;
                            }
                            let Some(pty) = f.sig.inputs.iter().find_map(|a| if let syn::FnArg::Typed(pt) = a { if pt.pat.to_token_stream().to_string() == "request" { Some((*pt.ty).clone()) } else { None } } else { None }) else {
                                continue;
                            };
                            let ident = f.sig.ident.to_string();
                            let ptoks = pty.to_token_stream().to_string();
                            let req_streaming = ptoks.contains("IntoStreamingRequest");
                            // message type named in the bound: IntoRequest<T> or IntoStreamingRequest<Message = T>
                            let mut req_ty: Option<String> = None;
                            if let syn::Type::ImplTrait(it) = &pty {
                                for b in &it.bounds {
                                    if let syn::TypeParamBound::Trait(tb) = b {
                                        if let Some(seg) = tb.path.segments.last() {
                                            if let syn::PathArguments::AngleBracketed(a) = &seg.arguments {
                                                for ga in &a.args {
                                                    match ga {
                                                        syn::GenericArgument::Type(t) => req_ty = Some(t.to_token_stream().to_string()),
                                                        syn::GenericArgument::AssocType(at) => req_ty = Some(at.ty.to_token_stream().to_string()),
                                                        _ => {}
                                                    }
                                                }
                                            }
                                        }
                                    }
                                }
                            }
                            let req_ty = req_ty.unwrap_or_else(|| panic!("client fn {}: cannot find the request message type in `{}`", ident, ptoks));
                            let rtoks = match &f.sig.output {
                                syn::ReturnType::Type(_, t) => t.to_token_stream().to_string(),
                                _ => String::new(),
                            };
                            let resp_streaming = rtoks.contains("Streaming");
                            let words: Vec<&str> = rtoks.split(|c: char| !(c.is_alphanumeric() || c == '_')).filter(|w| !w.is_empty()).collect();
                            let resp_msg = words.iter().find(|w| !["std", "result", "Result", "tonic", "Response", "Status", "codec", "Streaming", "super", "core"].contains(*w)).map(|w| w.to_string()).unwrap_or_default();
                            let req_msg = req_ty.split(|c: char| !(c.is_alphanumeric() || c == '_')).filter(|w| !w.is_empty()).last().unwrap_or("").to_string();
                            writeln!(code, "            {{").unwrap();
                            writeln!(code, "                let mut c = super::{}::{}::new(crate::Tap::new(server.clone()));", cm.ident, client_struct).unwrap();
                            writeln!(code, "                crate::begin({}, {}, {});", gi, k, js(&ident)).unwrap();
                            if req_streaming {
                                writeln!(code, "                let r = c.{}(tokio_stream::iter(vec![<{} as Default>::default(), <{} as Default>::default(), <{} as Default>::default()])).await;", f.sig.ident, req_ty, req_ty, req_ty).unwrap();
                            } else {
                                writeln!(code, "                let r = c.{}(<{} as Default>::default()).await;", f.sig.ident, req_ty).unwrap();
                            }
                            if resp_streaming {
                                writeln!(code, "                match r {{ Ok(resp) => {{ let mut s = resp.into_inner(); let mut n = 0u32; let mut err = None; loop {{ match s.message().await {{ Ok(Some(_)) => n += 1, Ok(None) => break, Err(e) => {{ err = Some(e); break; }} }} }} crate::end(n, err); }} Err(e) => crate::end(0, Some(e)) }}").unwrap();
                            } else {
                                writeln!(code, "                match r {{ Ok(_resp) => crate::end(1, None), Err(e) => crate::end(0, Some(e)) }}").unwrap();
                            }
                            writeln!(code, "            }}").unwrap();
                            write!(client_fns, "{}{{\"ident\":{},\"req_streaming\":{},\"resp_streaming\":{},\"req_msg\":{},\"resp_msg\":{}}}", if client_fns.is_empty() { "" } else { "," }, js(&ident), req_streaming, resp_streaming, js(&req_msg), js(&resp_msg)).unwrap();
                        }
                    }
                }
            }
            writeln!(code, "        }}").unwrap();
            writeln!(code, "    }}").unwrap();
            writeln!(runs, "    g{}::imp{}::drive().await;", gi, k).unwrap();
            write!(meta, "{}{{\"k\":{},\"name\":{},\"methods\":[{}],\"trait_fns\":[{}],\"client_fns\":[{}]}}", if k > 0 { "," } else { "" }, k, js(&s.name),
                s.methods.iter().map(|m| format!("{{\"name\":{},\"cs\":{},\"ss\":{},\"req\":{},\"resp\":{}}}", js(&m.name), m.cs, m.ss, js(&m.req), js(&m.resp))).collect::<Vec<_>>().join(","), trait_fns, client_fns).unwrap();
        }
        meta.push_str("]}");
        writeln!(code, "}}").unwrap();
    }
    meta.push(']');
    writeln!(code, "pub async fn run_all() {{\n{}}}", runs).unwrap();
    writeln!(code, "pub const META: &str = {:?};", meta).unwrap();
    std::fs::write(format!("{}/all.rs", out_dir), code).unwrap();
}
