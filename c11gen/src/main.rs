//! Behavioural C11 monitor: runs the compiled output of tonic-build (see build.rs) and checks,
//! per client method of every generated service, what it sent and which handler it reached.
//! usage: verif-c11gen <out.json>     exit 0 held / 1 violation(s)
use std::future::Future;
use std::pin::Pin;
use std::sync::Mutex;
use std::task::{Context, Poll};

include!(concat!(env!("OUT_DIR"), "/all.rs"));

#[derive(Default, Clone, Debug)]
pub struct Obs {
    g: usize,
    k: usize,
    client_fn: String,
    paths: Vec<String>,
    grpc_method: Option<(String, String)>,
    content_types: Vec<String>,
    hits: Vec<(usize, usize, String, u32)>,
    nresp: u32,
    err: Option<String>,
}

static CUR: Mutex<Option<Obs>> = Mutex::new(None);
static DONE: Mutex<Vec<Obs>> = Mutex::new(Vec::new());
static NAMES: Mutex<Vec<(usize, usize, String)>> = Mutex::new(Vec::new());

pub fn begin(g: usize, k: usize, f: &str) {
    *CUR.lock().unwrap() = Some(Obs { g, k, client_fn: f.to_string(), ..Default::default() });
}
pub fn end(nresp: u32, err: Option<tonic::Status>) {
    let mut o = CUR.lock().unwrap().take().expect("end without begin");
    o.nresp = nresp;
    o.err = err.map(|e| format!("{:?}: {}", e.code(), e.message()));
    DONE.lock().unwrap().push(o);
}
pub fn hit(g: usize, k: usize, f: &str, nreq: u32) {
    if let Some(o) = CUR.lock().unwrap().as_mut() {
        o.hits.push((g, k, f.to_string(), nreq));
    }
}
pub fn named(g: usize, k: usize, name: &str) {
    NAMES.lock().unwrap().push((g, k, name.to_string()));
}

/// Records what the generated client sends, then hands the request to the generated server.
#[derive(Clone)]
pub struct Tap<S> {
    inner: S,
}
impl<S> Tap<S> {
    pub fn new(inner: S) -> Self {
        Tap { inner }
    }
}
impl<S, B> tower_service::Service<http::Request<B>> for Tap<S>
where
    S: tower_service::Service<http::Request<B>>,
    S::Future: Send + 'static,
{
    type Response = S::Response;
    type Error = S::Error;
    type Future = Pin<Box<dyn Future<Output = Result<S::Response, S::Error>> + Send>>;
    fn poll_ready(&mut self, cx: &mut Context<'_>) -> Poll<Result<(), S::Error>> {
        self.inner.poll_ready(cx)
    }
    fn call(&mut self, req: http::Request<B>) -> Self::Future {
        if let Some(o) = CUR.lock().unwrap().as_mut() {
            o.paths.push(req.uri().path().to_string());
            if let Some(m) = req.extensions().get::<tonic::GrpcMethod<'static>>() {
                o.grpc_method = Some((m.service().to_string(), m.method().to_string()));
            }
            o.content_types.push(req.headers().get("content-type").map(|v| String::from_utf8_lossy(v.as_bytes()).to_string()).unwrap_or_default());
        }
        Box::pin(self.inner.call(req))
    }
}

fn main() {
    let out = std::env::args().nth(1);
    let rt = tokio::runtime::Builder::new_current_thread().enable_all().build().expect("runtime");
    rt.block_on(run_all());
    let meta: serde_json::Value = serde_json::from_str(META).expect("meta");
    let done = DONE.lock().unwrap().clone();
    let names = NAMES.lock().unwrap().clone();
    let mut violations: Vec<(String, String)> = Vec::new();
    let mut methods_checked = 0u64;
    let mut shapes = std::collections::BTreeMap::<String, u64>::new();
    let mut kinds = std::collections::BTreeMap::<String, u64>::new();
    for g in meta.as_array().unwrap() {
        let gi = g["g"].as_u64().unwrap() as usize;
        let pkg = g["package"].as_str();
        let emit = g["emit_package"].as_bool().unwrap();
        *kinds.entry(format!("pkg.{}", match pkg { None => "absent", Some(p) if p.contains('.') => "nested", _ => "single" })).or_default() += 1;
        if !emit {
            *kinds.entry("opt.no_package_emission".into()).or_default() += 1;
        }
        if g["default_stubs"].as_bool().unwrap() {
            *kinds.entry("opt.default_stubs".into()).or_default() += 1;
        }
        if g["arc_self"].as_bool().unwrap() {
            *kinds.entry("opt.arc_self".into()).or_default() += 1;
        }
        for s in g["services"].as_array().unwrap() {
            let k = s["k"].as_u64().unwrap() as usize;
            let sname = s["name"].as_str().unwrap();
            let want_name = match (pkg, emit) {
                (Some(p), true) => format!("{}.{}", p, sname),
                _ => sname.to_string(),
            };
            let whr = format!("family member {} (package {:?}, emit_package {}), service {}", gi, pkg, emit, sname);
            // 1. advertised name
            match names.iter().find(|(a, b, _)| *a == gi && *b == k) {
                Some((_, _, n)) if *n == want_name => {}
                other => violations.push(("service-name".into(), format!("{}: NamedService::NAME is {:?}, the descriptor says {:?}", whr, other.map(|x| &x.2), want_name))),
            }
            let methods = s["methods"].as_array().unwrap();
            let obs: Vec<&Obs> = done.iter().filter(|o| o.g == gi && o.k == k).collect();
            if obs.len() != methods.len() {
                violations.push(("client-method-count".into(), format!("{}: {} callable client methods for {} rpc methods", whr, obs.len(), methods.len())));
            }
            let mut seen_methods: Vec<&str> = Vec::new();
            for o in &obs {
                methods_checked += 1;
                let w = format!("{}, client method `{}`", whr, o.client_fn);
                // 2. the path it sent names exactly one rpc of this service
                if o.paths.len() != 1 {
                    violations.push(("client-requests".into(), format!("{}: sent {} requests ({:?})", w, o.paths.len(), o.paths)));
                    continue;
                }
                let path = &o.paths[0];
                let m = methods.iter().find(|m| *path == format!("/{}/{}", want_name, m["name"].as_str().unwrap()));
                let Some(m) = m else {
                    violations.push(("client-path".into(), format!("{}: sent to {:?}, which is not /{}/<a method of the service> ({:?})", w, path, want_name, methods.iter().map(|m| m["name"].as_str().unwrap()).collect::<Vec<_>>())));
                    continue;
                };
                let mname = m["name"].as_str().unwrap();
                if seen_methods.contains(&mname) {
                    violations.push(("client-path".into(), format!("{}: a second client method sends to {:?}", w, path)));
                }
                seen_methods.push(mname);
                if o.content_types.first().map(|c| c.as_str()) != Some("application/grpc") {
                    violations.push(("client-content-type".into(), format!("{}: content-type {:?}", w, o.content_types)));
                }
                if let Some((svc, meth)) = &o.grpc_method {
                    if *svc != want_name || meth != mname {
                        violations.push(("client-grpc-method".into(), format!("{}: path {:?} but the GrpcMethod extension says ({:?}, {:?})", w, path, svc, meth)));
                    }
                }
                let (cs, ss) = (m["cs"].as_bool().unwrap(), m["ss"].as_bool().unwrap());
                let shape = match (cs, ss) { (false, false) => "unary", (false, true) => "server_streaming", (true, false) => "client_streaming", _ => "streaming" };
                *shapes.entry(shape.to_string()).or_default() += 1;
                // 3. which handler ran
                if let Some(e) = &o.err {
                    violations.push(("call-failed".into(), format!("{}: the call to {:?} failed with {} (handlers reached: {:?})", w, path, e, o.hits.iter().map(|h| &h.2).collect::<Vec<_>>())));
                    continue;
                }
                if o.hits.len() != 1 {
                    violations.push(("dispatch-count".into(), format!("{}: {} handler invocations for one call", w, o.hits.len())));
                    continue;
                }
                let h = &o.hits[0];
                if h.0 != gi || h.1 != k || h.2 != o.client_fn {
                    violations.push(("dispatch-target".into(), format!("{}: the call to {:?} ran handler `{}` (of service #{} in member {})", w, path, h.2, h.1, h.0)));
                }
                // 4. shapes: descriptor = client signature = server signature = what was observed
                let cf = s["client_fns"].as_array().unwrap().iter().find(|f| f["ident"].as_str() == Some(o.client_fn.as_str()));
                let tf = s["trait_fns"].as_array().unwrap().iter().find(|f| f["ident"].as_str() == Some(h.2.as_str()));
                if let Some(cf) = cf {
                    if cf["req_streaming"].as_bool() != Some(cs) || cf["resp_streaming"].as_bool() != Some(ss) {
                        violations.push(("client-shape".into(), format!("{}: signature streams (request {}, response {}), the rpc {} is (client_streaming {}, server_streaming {})", w, cf["req_streaming"], cf["resp_streaming"], mname, cs, ss)));
                    }
                    if cf["req_msg"].as_str() != m["req"].as_str() || cf["resp_msg"].as_str() != m["resp"].as_str() {
                        violations.push(("client-types".into(), format!("{}: signature uses ({}, {}), the rpc {} uses ({}, {})", w, cf["req_msg"], cf["resp_msg"], mname, m["req"], m["resp"])));
                    }
                }
                if let Some(tf) = tf {
                    if tf["req_streaming"].as_bool() != Some(cs) || tf["resp_streaming"].as_bool() != Some(ss) {
                        violations.push(("server-shape".into(), format!("{}: handler `{}` streams (request {}, response {}), the rpc {} is (client_streaming {}, server_streaming {})", w, h.2, tf["req_streaming"], tf["resp_streaming"], mname, cs, ss)));
                    }
                    if tf["req_msg"].as_str() != m["req"].as_str() || tf["resp_msg"].as_str() != m["resp"].as_str() {
                        violations.push(("server-types".into(), format!("{}: handler `{}` uses ({}, {}), the rpc {} uses ({}, {})", w, h.2, tf["req_msg"], tf["resp_msg"], mname, m["req"], m["resp"])));
                    }
                }
                let want_nreq = if cs { 3 } else { 1 };
                let want_nresp = if ss { 2 } else { 1 };
                if h.3 != want_nreq || o.nresp != want_nresp {
                    violations.push(("message-counts".into(), format!("{}: handler received {} request message(s) (sent {}), client received {} response message(s) (handler produced {})", w, h.3, want_nreq, o.nresp, want_nresp)));
                }
            }
            for m in methods {
                if !seen_methods.contains(&m["name"].as_str().unwrap()) && obs.len() == methods.len() {
                    violations.push(("client-path".into(), format!("{}: no client method sends to /{}/{}", whr, want_name, m["name"].as_str().unwrap())));
                }
            }
        }
    }
    let mut sigs = std::collections::BTreeMap::<String, (u64, String)>::new();
    for (s, w) in &violations {
        let e = sigs.entry(s.clone()).or_insert((0, w.clone()));
        e.0 += 1;
    }
    let report = serde_json::json!({
        "family_members": meta.as_array().unwrap().len(),
        "services_compiled_and_run": names.len(),
        "client_methods_called": methods_checked,
        "shapes": shapes,
        "descriptor_kinds": kinds,
        "violations": violations.len(),
        "violation_signatures": sigs.iter().map(|(k, v)| serde_json::json!({"signature": k, "count": v.0, "example": v.1})).collect::<Vec<_>>(),
    });
    if let Some(p) = out {
        std::fs::write(&p, serde_json::to_string_pretty(&report).unwrap()).expect("write report");
    }
    println!("c11gen: {} services of {} descriptor sets compiled and run, {} client methods called, {} violation(s)", names.len(), meta.as_array().unwrap().len(), methods_checked, violations.len());
    for (k, v) in &sigs {
        println!("  signature: behaviour/{}  (x{})\n  what: {}", k, v.0, v.1);
    }
    if methods_checked < 20 {
        println!("c11gen: INCONCLUSIVE too few methods exercised");
        std::process::exit(3);
    }
    std::process::exit(if violations.is_empty() { 0 } else { 1 });
}
