#!/usr/bin/env python3
"""Independent offline judge of the C03 wire log (shares no code with tonic or with the Rust harness).

usage: wirecheck.py <wirelog.jsonl> <summary.json>
exit 0: every record conforms; exit 1: at least one deviation (printed); exit 3: nothing judged.
Decompression: zlib / gzip from the Python standard library; zstd through the zstd CLI when present
(otherwise zstd payloads are counted as skipped, not judged).
"""
import sys, json, zlib, gzip, struct, subprocess, shutil, os

ZSTD = shutil.which("zstd") or ("/root/miniconda/bin/zstd" if os.path.exists("/root/miniconda/bin/zstd") else None)
ZSTD_BUDGET = 400
stats = {"records": 0, "request_bodies": 0, "response_bodies": 0, "frames": 0, "gzip": 0, "deflate": 0, "zstd": 0, "zstd_skipped": 0, "trailers_only": 0, "trailers_block": 0}

def unhex(s): return bytes.fromhex(s)
def hdrs(lst):
    d = {}
    for k, v in lst:
        d.setdefault(k, []).append(unhex(v))
    return d

def varint(b, p):
    x = 0; shift = 0
    while True:
        if p >= len(b): raise ValueError("truncated varint")
        c = b[p]; p += 1
        x |= (c & 0x7f) << shift
        if not c & 0x80: return x, p
        shift += 7
        if shift > 63: raise ValueError("varint too long")

def parse_msg(b):
    """Msg {1: bytes data, 2: uint64 seq, 3: string tag}"""
    data, seq, tag = b"", 0, ""
    p = 0
    while p < len(b):
        key, p = varint(b, p)
        f, wt = key >> 3, key & 7
        if wt == 0:
            v, p = varint(b, p)
            if f == 2: seq = v
        elif wt == 2:
            n, p = varint(b, p)
            if p + n > len(b): raise ValueError("truncated field")
            v = b[p:p+n]; p += n
            if f == 1: data = v
            elif f == 3: tag = v.decode("utf-8")
        else:
            raise ValueError("unexpected wire type %d" % wt)
    return data, seq, tag

def decompress(enc, payload):
    global ZSTD_BUDGET
    if enc == "gzip":
        stats["gzip"] += 1
        return gzip.decompress(payload)
    if enc == "deflate":
        stats["deflate"] += 1
        return zlib.decompress(payload)  # gRPC "deflate" = zlib container
    if enc == "zstd":
        if ZSTD is None or ZSTD_BUDGET <= 0:
            stats["zstd_skipped"] += 1
            return None
        ZSTD_BUDGET -= 1
        stats["zstd"] += 1
        r = subprocess.run([ZSTD, "-d", "-c", "-q"], input=payload, capture_output=True)
        if r.returncode != 0:
            raise ValueError("zstd CLI: " + r.stderr.decode(errors="replace")[:80])
        return r.stdout
    raise ValueError("unknown encoding %r" % enc)

def judge_body(body, enc, expect, what, dev, prefix_ok=False):
    p = 0; i = 0
    while p < len(body):
        if len(body) - p < 5:
            dev.append("%s: %d stray bytes after the last message" % (what, len(body) - p)); return
        flag = body[p]
        (n,) = struct.unpack(">I", body[p+1:p+5])
        if len(body) - p - 5 < n:
            dev.append("%s: message %d declares %d bytes, %d present" % (what, i, n, len(body) - p - 5)); return
        payload = body[p+5:p+5+n]; p += 5 + n
        stats["frames"] += 1
        if flag not in (0, 1):
            dev.append("%s: message %d has flag %d" % (what, i, flag)); i += 1; continue
        if flag == 1:
            if enc in (None, "identity"):
                dev.append("%s: message %d flagged compressed without grpc-encoding" % (what, i)); i += 1; continue
            try:
                payload = decompress(enc, payload)
            except Exception as e:
                dev.append("%s: message %d does not decompress with announced %s: %s" % (what, i, enc, e)); i += 1; continue
            if payload is None:
                i += 1; continue
        try:
            got = parse_msg(payload)
        except Exception as e:
            dev.append("%s: message %d is not the expected protobuf: %s" % (what, i, e)); i += 1; continue
        if i < len(expect):
            e = expect[i]
            if got != (unhex(e["data"]), e["seq"], e["tag"]):
                dev.append("%s: message %d carries other field values" % (what, i))
        i += 1
    if i > len(expect) or (i != len(expect) and not prefix_ok):
        dev.append("%s: %d messages on the wire, %d expected" % (what, i, len(expect)))

def judge(rec):
    dev = []
    rq, rs = rec["request"], rec["response"]
    h = hdrs(rq["headers"])
    if rq["method"] != "POST": dev.append("request method %s" % rq["method"])
    if rq["version"] != "HTTP/2.0": dev.append("request version %s" % rq["version"])
    path = rq["uri"].split("://", 1)[-1]
    path = path[path.index("/"):] if "/" in path else path
    if path != rq["expect_path"]: dev.append("request path %s, want %s" % (path, rq["expect_path"]))
    if h.get("content-type") != [b"application/grpc"]: dev.append("request content-type %r" % h.get("content-type"))
    if h.get("te") != [b"trailers"]: dev.append("request te %r" % h.get("te"))
    enc = h.get("grpc-encoding", [None])[0]
    enc = enc.decode() if enc else None
    judge_body(unhex(rq["body"]), enc, rq["expect_messages"], "request", dev, rq.get("prefix_ok", False)); stats["request_bodies"] += 1
    if rq["trailer_blocks"]: dev.append("request body carried trailers")
    h = hdrs(rs["headers"])
    if rs["status"] != 200: dev.append("response HTTP status %d" % rs["status"])
    if h.get("content-type") != [b"application/grpc"]: dev.append("response content-type %r" % h.get("content-type"))
    body = unhex(rs["body"])
    tr = [hdrs(t) for t in rs["trailers"]]
    n_hdr = len(h.get("grpc-status", []))
    n_trl = sum(len(t.get("grpc-status", [])) for t in tr)
    if n_hdr + n_trl != 1: dev.append("%d grpc-status in headers + %d in trailers" % (n_hdr, n_trl))
    if n_hdr == 1:
        stats["trailers_only"] += 1
        if body or tr: dev.append("trailers-only response has a body or trailers")
    else:
        stats["trailers_block"] += 1
        if len(tr) != 1: dev.append("%d trailers blocks" % len(tr))
    if rs["frames_after_end"]: dev.append("%d frames after the end of the body" % rs["frames_after_end"])
    enc = h.get("grpc-encoding", [None])[0]
    enc = enc.decode() if enc else None
    judge_body(body, enc, rs["expect_messages"], "response", dev); stats["response_bodies"] += 1
    st = (h.get("grpc-status") or (tr[0].get("grpc-status") if tr else None) or [b"?"])[0].decode()
    if st != rs["expect_status"]: dev.append("grpc-status %s, want %s" % (st, rs["expect_status"]))
    return dev

def main():
    log, out = sys.argv[1], sys.argv[2]
    bad = 0
    for line in open(log):
        line = line.strip()
        if not line: continue
        rec = json.loads(line)
        stats["records"] += 1
        dev = judge(rec)
        if dev:
            bad += 1
            if bad <= 5:
                print("wirecheck: record %s (%s, %s): %s" % (rec["id"], rec["shape"], rec["outcome"], "; ".join(dev[:3])))
    stats["deviating_records"] = bad
    stats["zstd_cli"] = ZSTD
    json.dump(stats, open(out, "w"))
    if stats["records"] == 0: sys.exit(3)
    sys.exit(1 if bad else 0)
main()
